"""C08 – parallel-tempering exchanges are correct and independent of scheduling.

Engine B (all interleavings of parent + N workers over fake Process/Pipe/Event, stateful BFS) with Engine A
inside the parent (all pairings and accept/reject outcomes of swap()).
"""
import contextlib
import io
import itertools
import math
import pickle
import random

import numpy as np

from mc.core import HarnessError, fail, lib
from mc.explore import explore
from mc.rngseam import ScriptedGenerator
from mc.sched import World, explore_schedules, explore_schedules_learned, patched_parallel, run_serial_schedule

LEVEL = "model_checking"

LADDERS = {1: [1.0], 2: [1.0, 2.0], 3: [1.0, 2.0, 4.0], 4: [1.0, 1.5, 4.0, 9.0], 5: [1.0, 2.0, 3.0, 5.0, 8.0],
           6: [1.0, 1.5, 2.0, 3.0, 5.0, 8.0], 7: [1.0, 1.5, 2.0, 3.0, 4.0, 6.0, 9.0]}


def post(t):
    t = np.asarray(t, dtype=float)
    return float(-0.5 * ((t - 0.2) ** 2).sum() - 0.1 * (t ** 4).sum())


def grad(t):
    t = np.asarray(t, dtype=float)
    return -(t - 0.2) - 0.4 * t ** 3


UNSORTED = {2: [2.0, 1.0], 3: [4.0, 1.0, 2.0], 4: [1.5, 9.0, 1.0, 4.0], 5: [3.0, 1.0, 8.0, 2.0, 5.0]}
TIED = {2: [1.0, 1.0], 3: [1.0, 2.0, 2.0], 4: [1.0, 1.0, 3.0, 3.0], 5: [1.0, 2.0, 2.0, 2.0, 5.0]}  # equal temperatures are legal


def ladder_of(N, which="sorted"):
    if which == "tied":
        return TIED[N]
    return LADDERS[N] if which == "sorted" or N not in UNSORTED else UNSORTED[N]


def make_chains(kind, N, seed, display=True, d=2, ladder="sorted"):
    from inference.mcmc import GibbsChain, HamiltonianChain, PcaChain

    chains = []
    for i, T in enumerate(ladder_of(N, ladder)):
        start = np.array([0.5 - 0.4 * i, 0.1 + 0.3 * i][:d])
        k = kind if kind != "mixed" else ("GibbsChain", "PcaChain", "HamiltonianChain")[i % 3]
        if k == "GibbsChain":
            c = GibbsChain(posterior=post, start=start, widths=np.full(d, 0.8), temperature=T, display_progress=display)
        elif k == "PcaChain":
            c = PcaChain(posterior=post, start=start, widths=np.full(d, 0.8), temperature=T, display_progress=display)
        else:
            c = HamiltonianChain(posterior=post, grad=grad, start=start, temperature=T, epsilon=0.3, display_progress=display)
            c.steps = 3
        c.rng = np.random.default_rng(100 * seed + i)
        for j, p in enumerate(getattr(c, "params", [])):
            p.rng = np.random.default_rng(10000 * seed + 10 * i + j)
        chains.append(c)
    return chains


def chain_bytes(c):
    return np.asarray(c.get_sample(burn=0)).tobytes() + np.asarray(c.get_probabilities(burn=0)).tobytes()


def outcome_of(chains, pt):
    return (tuple(chain_bytes(c) for c in chains), pt.attempted_swaps.tobytes(), pt.successful_swaps.tobytes())


COMMANDS = ("steps1", "steps2", "swap", "adv52", "ret")


def do_command(pt, cmd):
    if cmd == "steps1":
        pt.take_steps(1)
    elif cmd == "steps2":
        pt.take_steps(2)
    elif cmd == "swap":
        pt.swap()
    elif cmd == "adv52":
        pt.advance(5, swap_interval=2)
    elif cmd == "ret":
        pt.return_chains()
    else:
        raise KeyError(cmd)


# --------------------------------------------------------------------------- schedule independence (Engine B)
def script_parent(kind, N, script, seed, display, unequal=False):
    def parent(PAR, out):
        chains = make_chains(kind, N, seed, display)
        if unequal:
            # the chains do not start with the same length (e.g. the cold chain was burned in first)
            with contextlib.redirect_stdout(io.StringIO()):
                for i, c in enumerate(chains):
                    for _ in range(3 * (N - i) + (i % 2)):
                        c.take_step()
        out["len0"] = [c.chain_length for c in chains]
        pt = PAR.ParallelTempering(chains)
        pt.rng = np.random.default_rng(seed)
        for cmd in script:
            do_command(pt, cmd)
        chains = pt.return_chains()
        pt.shutdown()
        out["outcome"] = outcome_of(chains, pt)
        out["lengths"] = [c.chain_length for c in chains]
        out["alive"] = [p.is_alive() for p in pt.processes]
    return parent


def expected_steps(script):
    return sum({"steps1": 1, "steps2": 2, "swap": 0, "adv52": 5, "ret": 0}[c] for c in script)


def real_run(kind, N, script, seed):
    """The same script on real multiprocessing (fork): conformance of the fakes."""
    import inference.mcmc.parallel as PAR

    PAR.choice = random.Random(seed).choice
    try:
        with contextlib.redirect_stdout(io.StringIO()):
            pt = PAR.ParallelTempering(make_chains(kind, N, seed, True))
            pt.rng = np.random.default_rng(seed)
            for cmd in script:
                do_command(pt, cmd)
            chains = pt.return_chains()
            pt.shutdown()
        alive = [p.is_alive() for p in pt.processes]
        return outcome_of(chains, pt), alive
    finally:
        PAR.choice = random.choice


def ev_schedules(case):
    kind, N, script, seed, display, cap = case["chains"], case["N"], case["script"], case["seed"], case["display"], case["capacity"]
    label = f"N={N}"
    fails, tags = [], set()
    parent = script_parent(kind, N, script, seed, display, unequal=case.get("unequal", False))
    conf = dict(case)
    traces = 0
    if case.get("engine", "learned") == "plain":
        r = explore_schedules(parent, capacity=cap, seed=seed)
    else:
        r = explore_schedules_learned(parent, capacity=cap, seed=seed)
        traces = r["conformance_checks"]
        if case.get("crosscheck"):
            # the learned-step search must reproduce the plain search (every state reached by a real execution) exactly;
            # the learned graph has one extra state and transition: the not-yet-started world and the parent's first step
            r0 = explore_schedules(parent, capacity=cap, seed=seed)
            same = len(r["finals"]) > 1 or bool(r["deadlocks"]) or (r["states"] - 1 == r0["states"] and r["transitions"] - 1 == r0["transitions"] and set(r["finals"]) == set(r0["finals"])
                    and len(r["deadlocks"]) == len(r0["deadlocks"]) and bool(r["worker_errors"]) == bool(r0["worker_errors"]))
            if not same:
                raise HarnessError(f"learned-step search disagrees with the plain search: {r['states'] - 1}/{r['transitions'] - 1}/{len(r['finals'])} vs "
                                   f"{r0['states']}/{r0['transitions']}/{len(r0['finals'])}")
            traces += r0["runs"]
    if r["worker_errors"]:
        p, e = r["worker_errors"][0]
        what = "; ".join(f"{k}: {v}" for k, v in e.items())
        kind_key = "unpicklable-chain" if "pickle" in what.lower() or "__no_status" in what else "exception"
        fails.append(fail(f"protocol/display={display}/worker-or-parent-raised/{kind_key}", what[:600], schedule=p, config=conf))
    if r["deadlocks"]:
        p, who = r["deadlocks"][0]
        fails.append(fail("protocol/deadlock", f"no enabled process, unfinished: {who}", schedule=p, config=conf))
    if r["stuck"] and not r["worker_errors"]:
        fails.append(fail("protocol/workers-never-terminate", "a state from which only idle polling is possible", schedule=r["stuck"][0], config=conf))
    if not r["worker_errors"] and not r["deadlocks"]:
        if len(r["finals"]) != 1:
            ks = list(r["finals"].items())
            fails.append(fail("schedule/outcome-depends-on-interleaving", f"{len(r['finals'])} distinct final outcomes for one script and fixed seeds",
                              schedules=[p for _, p in ks[:3]], config=conf))
        else:
            # serial reference: one canonical schedule, plus arithmetic of lengths
            out, done, excs = run_serial_schedule(parent, capacity=cap, seed=seed)
            if not done or excs:
                fails.append(fail("protocol/serial-run-does-not-complete", f"{excs}", config=conf))
            else:
                if out["outcome"] not in r["finals"]:
                    raise HarnessError("serial schedule outcome not among explored finals")
                want = [l0 + expected_steps(script) for l0 in out["len0"]]
                if list(out["lengths"]) != want:
                    fails.append(fail("advance/chains-not-advanced-by-requested-steps", f"lengths {out['lengths']} expected {want} (initial {out['len0']})", config=conf))
                if any(out["alive"]):
                    fails.append(fail("protocol/worker-alive-after-shutdown", f"{out['alive']}", config=conf))
    tags.add(f"{label}:cap={cap}:display={display}:states>{10 ** int(math.log10(max(r['states'], 1)))}")
    return {"fails": fails, "n": r["runs"], "states": r["states"], "transitions": r["transitions"], "tags": tags, "traces": traces,
            "sample": {"script": script, "N": N, "states": r["states"], "transitions": r["transitions"], "finals": len(r["finals"]), "max_depth": r["max_depth"],
                       "real_executions": r["runs"], "learned_steps": r.get("learned_steps")}}


# --------------------------------------------------------------------------- exchange rule (Engine A inside a serial schedule)
def ev_exchange(case):
    kind, N, seed, presteps = case["chains"], case["N"], case["seed"], case["presteps"]
    fails, fkeys, tags = [], set(), set()
    n = 0
    ladder = ladder_of(N, case.get("ladder", "sorted"))
    lname = case.get("ladder", "sorted")

    def add_fail(key, what, **kw):
        if key not in fkeys:
            fkeys.add(key)
            fails.append(fail(key, what, config=case, **kw))

    def body(ctx):
        res = {}

        def parent(PAR, out):
            gen = ScriptedGenerator(ctx, name="pt")
            PAR.choice = lambda seq: seq[ctx.choose("choice", [1.0 / len(seq)] * len(seq))]
            pt = PAR.ParallelTempering(make_chains(kind, N, seed, True, ladder=lname))
            pt.rng = gen
            if presteps:
                pt.take_steps(presteps)
            rounds = []
            for _ in range(case.get("rounds", 1)):
                # consecutive exchange rounds without stepping in between: the second round starts from installed points
                before = pt.return_chains()
                a0, s0 = pt.attempted_swaps.copy(), pt.successful_swaps.copy()
                o0 = len(ctx.obs)
                pt.swap()
                o1 = len(ctx.obs)
                after = pt.return_chains()
                rounds.append(dict(before=before, after=after, da=pt.attempted_swaps - a0, ds=pt.successful_swaps - s0, obs=(o0, o1)))
            pt.shutdown()
            out["rounds"] = rounds

        out, done, excs = run_serial_schedule(parent, seed=seed)
        for e in excs.values():
            if isinstance(e, HarnessError):
                raise e
        if excs or not done:
            return {"error": "; ".join(f"{k}: {type(e).__name__}: {e}" for k, e in excs.items()) or "run did not complete (a process is blocked for ever)"}
        return out

    for ctx, out in explore(body):
        n += 1
        if "error" in out:
            add_fail("exchange/swap-or-return_chains-raises-or-blocks", out["error"][:500], choices=ctx.choices)
            continue
        for ri, rd in enumerate(out["rounds"]):
            _check_round(rd, ri, ctx, N, ladder, kind, lname, add_fail, tags)
    return {"fails": fails, "n": n, "states": n, "transitions": n * (N // 2) * case.get("rounds", 1), "tags": tags, "sample": {"config": case, "executions": n}}


def _check_round(rd, ri, ctx, N, ladder, kind, lname, add_fail, tags):
        before, after, da, ds = rd["before"], rd["after"], rd["da"], rd["ds"]
        obs = ctx.obs[rd["obs"][0] : rd["obs"][1]]
        pairs = [(i, j) for i in range(N) for j in range(N) if da[i, j] > 0]
        # each chain in at most one proposed pair; pairs ordered; floor(N/2) pairs
        used = [i for p in pairs for i in p]
        if len(used) != len(set(used)):
            add_fail("pairing/chain-in-more-than-one-proposed-pair", f"pairs {pairs}", choices=ctx.choices)
        if any(i >= j for i, j in pairs) or np.any(da > 1):
            add_fail("pairing/pair-not-ordered-or-counted-twice", f"pairs {pairs}", choices=ctx.choices)
        if len(pairs) != N // 2:
            add_fail("pairing/number-of-pairs-not-floor-N/2", f"pairs {pairs} for N={N}", choices=ctx.choices)
        L = [b.probs[-1] * ladder[i] for i, b in enumerate(before)]
        for i, b in enumerate(before):
            ref = post(b.get_last())
            if abs(L[i] - ref) > 1e-10 * (1 + abs(ref)):
                if ri == 0:
                    raise HarnessError("stored probability differs from posterior before the exchange (C03 territory)")
                add_fail("exchange/probability-of-installed-point-wrong-before-next-round", f"chain {i}: stored {b.probs[-1]!r}, posterior/T {ref / ladder[i]!r}", choices=ctx.choices)
        prob = {(i, j): min(1.0, math.exp(min((1 / ladder[i] - 1 / ladder[j]) * (L[j] - L[i]), 50))) for i, j in pairs}
        want = sorted(prob.values())
        got = sorted(min(max(o[3], 0.0), 1.0) for o in obs if o[0] == "cmp")
        # a pair whose exchange probability is 1 may be decided without drawing a uniform (it must then be exchanged);
        # every probability below 1 must appear as the threshold of a comparison
        want_lt1 = [w for w in want if w < 1.0 - 1e-12]
        got_lt1 = [g for g in got if g < 1.0 - 1e-12]
        n_certain = len(want) - len(want_lt1)
        if len(got_lt1) != len(want_lt1) or any(abs(g - w) > 1e-12 for g, w in zip(got_lt1, want_lt1)) or len(got) - len(got_lt1) > n_certain:
            add_fail("exchange/threshold-not-min(1,exp((1/Ti-1/Tj)(Lj-Li)))", f"pairs {pairs}: uniforms compared with {got}, expected {want}", choices=ctx.choices)
        accepted = [(i, j) for (i, j) in pairs if ds[i, j] > 0]
        if np.any(ds > da):
            add_fail("exchange/success-counted-without-attempt", f"{ds.tolist()}", choices=ctx.choices)
        for pr, pv in prob.items():
            if pv >= 1.0 - 1e-12 and pr not in accepted:
                add_fail("exchange/certain-exchange-not-performed", f"pair {pr} has exchange probability 1 (T={ladder[pr[0]]},{ladder[pr[1]]}) but was not exchanged", choices=ctx.choices)
        nacc_obs = sum(1 for o in obs if o[0] == "cmp" and o[5] and min(max(o[3], 0.0), 1.0) < 1.0 - 1e-12)
        if nacc_obs != sum(1 for pr in accepted if prob[pr] < 1.0 - 1e-12):
            add_fail("exchange/successful-swap-count-differs-from-accepted-decisions", f"{nacc_obs} accepted uncertain decisions, counted {len(accepted)} exchanges", choices=ctx.choices)
        touched = set()
        for i, j in accepted:
            touched |= {i, j}
            for a, b in ((i, j), (j, i)):
                if not np.array_equal(after[a].get_last(), before[b].get_last()):
                    add_fail("exchange/accepted-exchange-did-not-install-partner-position", f"chain {a} has {after[a].get_last()}, partner had {before[b].get_last()}", choices=ctx.choices)
                ref = L[b] / ladder[a]
                if abs(after[a].probs[-1] - ref) > 1e-12 * (1 + abs(ref)):
                    add_fail("exchange/installed-probability-not-at-receiving-temperature", f"chain {a} (T={ladder[a]}) stores {after[a].probs[-1]!r}, expected L/T = {ref!r}", choices=ctx.choices)
                # history before the last point untouched, length unchanged
                if after[a].chain_length != before[a].chain_length or not np.array_equal(
                        np.asarray(after[a].get_sample(burn=0))[:-1], np.asarray(before[a].get_sample(burn=0))[:-1]):
                    add_fail("exchange/history-of-exchanged-chain-changed", f"chain {a}", choices=ctx.choices)
            tags.add(f"N={N}:accepted-exchange:{kind}:{lname}")
        for i in range(N):
            if i not in touched and chain_bytes(after[i]) != chain_bytes(before[i]):
                add_fail("exchange/unexchanged-chain-modified", f"chain {i}", choices=ctx.choices)
            # the reported mode is a recorded sample of maximal recorded probability, also right after an exchange
            S_, P_ = np.asarray(after[i].get_sample(burn=0)), np.asarray(after[i].get_probabilities(burn=0))
            with lib("mode-after-exchange"):
                m_ = np.asarray(after[i].mode()).reshape(-1)
            rows = [k for k in range(S_.shape[0]) if np.array_equal(S_[k], m_)]
            if not rows or max(P_[k] for k in rows) < P_.max():
                add_fail("exchange/mode-not-the-recorded-sample-of-maximal-probability-after-exchange",
                         f"chain {i} ({type(after[i]).__name__}): mode {m_.tolist()}, best recorded row {S_[int(P_.argmax())].tolist()}", choices=ctx.choices)
        if len(accepted) < len(pairs):
            tags.add(f"N={N}:rejected-exchange:{kind}")
        tags.add(f"N={N}:pairs={pairs}:round={ri}")


def ev_pairs(case):
    """tight_pairs / uniform_pairs called directly, all outcomes of choice / shuffle."""
    N = case["N"]
    fails, fkeys, tags = [], set(), set()
    n = 0

    def add_fail(key, what, **kw):
        if key not in fkeys:
            fkeys.add(key)
            fails.append(fail(key, what, config=case, **kw))

    def body(ctx):
        def parent(PAR, out):
            PAR.choice = lambda seq: seq[ctx.choose("choice", [1.0 / len(seq)] * len(seq))]
            pt = PAR.ParallelTempering(make_chains("GibbsChain", N, 1, True, d=1))
            pt.rng = ScriptedGenerator(ctx, name="pt")
            out["pairs"] = [tuple(int(v) for v in p) for p in getattr(pt, case["method"])()]
            pt.shutdown()

        out, done, excs = run_serial_schedule(parent)
        for e in excs.values():
            if isinstance(e, HarnessError):
                raise e
        if excs or not done:
            return ("error", "; ".join(f"{k}: {type(e).__name__}: {e}" for k, e in excs.items()) or "blocked")
        return out["pairs"]

    seen = {}
    for ctx, pairs in explore(body, max_exec=20000):
        n += 1
        if pairs and pairs[0] == "error":
            add_fail(f"pairing/{case['method']}/raises", str(pairs[1])[:400], choices=ctx.choices)
            continue
        used = [i for p in pairs for i in p]
        if len(used) != len(set(used)) or any(not (0 <= i < N) for i in used):
            add_fail(f"pairing/{case['method']}/chain-in-more-than-one-pair", f"N={N}: {pairs}", choices=ctx.choices)
        if len(pairs) != N // 2:
            add_fail(f"pairing/{case['method']}/number-of-pairs-not-floor-N/2", f"N={N}: {pairs}", choices=ctx.choices)
        if case["method"] == "tight_pairs" and any(i >= j for i, j in pairs):
            add_fail(f"pairing/{case['method']}/pair-not-ordered", f"N={N}: {pairs}", choices=ctx.choices)
        k = tuple(sorted(tuple(sorted(p)) for p in pairs))
        seen[k] = seen.get(k, 0.0) + ctx.weight
    if case["method"] == "uniform_pairs" and N <= 5 and seen:
        if max(seen.values()) - min(seen.values()) > 1e-9:
            add_fail("pairing/uniform_pairs/pairings-not-equally-likely", f"N={N}: {seen}")
    tags.add(f"{case['method']}:N={N}:distinct-pairings={len(seen)}")
    return {"fails": fails, "n": n, "states": len(seen), "transitions": n, "tags": tags}


def ev_arith(case):
    """advance(n, swap_interval): every chain advanced by exactly n, floor(n/si) swap rounds."""
    N, si = case["N"], case["si"]
    fails, fkeys, tags = [], set(), set()
    cnt = 0

    def add_fail(key, what, **kw):
        if key not in fkeys:
            fkeys.add(key)
            fails.append(fail(key, what, config=case, **kw))

    for n in case["ns"]:
        def parent(PAR, out, n=n):
            pt = PAR.ParallelTempering(make_chains("GibbsChain", N, 3, True, d=1))
            pt.rng = np.random.default_rng(5)
            calls = {"swap": 0}
            orig = pt.swap

            def counting():
                calls["swap"] += 1
                return orig()

            pt.swap = counting
            pt.advance(n, swap_interval=si)
            ch = pt.return_chains()
            pt.shutdown()
            out["len"] = [c.chain_length for c in ch]
            out["rounds"] = calls["swap"]
            out["att"] = float(np.triu(pt.attempted_swaps, 1).sum())

        with lib("advance"):
            out, done, excs = run_serial_schedule(parent)
        cnt += 1
        if excs or not done:
            add_fail("advance/raises-or-does-not-complete", f"n={n} si={si}: {excs}", n=n)
            continue
        if any(L != 1 + n for L in out["len"]):
            add_fail("advance/chains-not-advanced-by-requested-steps", f"n={n} si={si}: lengths {out['len']}", n=n)
        if out["att"] != (n // si) * (N // 2):
            add_fail("advance/number-of-swap-rounds-not-floor(n/swap_interval)", f"n={n} si={si}: {out['att']} proposed pairs, expected {(n // si) * (N // 2)}", n=n)
        tags.add(f"si={si}:rounds={'0' if n // si == 0 else ('<=50' if n // si <= 50 else '>50')}:rem={'0' if n % si == 0 else '+'}")
    return {"fails": fails, "n": cnt, "states": cnt, "transitions": cnt, "tags": tags}


def ev_realmp(case):
    """Conformance of the fakes: the same script with the same seeds on real multiprocessing (fork start method)
    must return byte-identical chains to the (unique) outcome of the fake world."""
    kind, N, script, seed = case["chains"], case["N"], case["script"], case["seed"]
    fails = []
    parent = script_parent(kind, N, script, seed, True)
    out, done, excs = run_serial_schedule(parent, seed=seed)
    for e in excs.values():
        if isinstance(e, HarnessError):
            raise e
    if excs or not done:
        return {"fails": [fail("protocol/script-raises-or-blocks", "; ".join(f"{k}: {type(e).__name__}: {e}" for k, e in excs.items())[:500] or "a process is blocked for ever", config=case)],
                "n": 1, "states": 1, "transitions": 1}
    with lib("real-multiprocessing-run"):
        ro, alive = real_run(kind, N, script, seed)
    if ro != out["outcome"]:
        # volatile: the operating system's scheduling of the real processes is the one source of nondeterminism the harness
        # does not own, so this observation need not repeat; one real run returning other chains is a counterexample
        fails.append(fail("schedule/real-multiprocessing-run-differs-from-explored-outcome", "chains returned by real worker processes differ from the explored outcome", config=case, volatile=True))
    if any(alive):
        fails.append(fail("protocol/real-worker-alive-after-shutdown", f"{alive}", config=case))
    return {"fails": fails, "n": 2, "states": 1, "transitions": 1, "traces": 1, "tags": {f"real-mp:N={N}:{'+'.join(script) or 'empty'}"}}


def ev_installed(case):
    """A point installed by an exchange really is the chain's current point: the exact one-step kernel of the real chain from an
    installed lattice state (replace_last + overwritten probability, as tempering_process does) - shared with C01's lattice evaluator."""
    from checks.c01 import ev_rw

    r = ev_rw(case)
    # the law of the recorded step (C01's step-level oracle and its recorded known finding) is not C08's business
    r["fails"] = [f for f in r["fails"] if not f["key"].startswith("steplaw/")]
    return r


EVALUATORS = {"installed": ev_installed, "realmp": ev_realmp, "schedules": ev_schedules, "exchange": ev_exchange, "pairs": ev_pairs, "arith": ev_arith}


def run(ck):
    q = ck.quick
    seed = ck.seed
    # ---- schedule independence
    cases = []
    Ns = (1, 2, 3)
    maxlen = 2 if q else 3
    for N in Ns:
        for L in range(0, maxlen + 1):
            for script in itertools.product(COMMANDS, repeat=L):
                for display in (True, False):
                    if not display and (L != 1 or script[0] != "steps1"):
                        continue
                    cases.append(dict(chains="mixed" if N > 1 else "GibbsChain", N=N, script=list(script), seed=1 + seed, display=display,
                                      capacity=None, real=(L <= 1 or script[0] == "swap"),
                                      crosscheck=(N <= 2 and L <= 1) or (N == 2 and L == 2 and script[0] == "swap" and not q) or (N == 3 and L == 1 and script[0] == "swap" and not q)))
    rep = [["steps1", "swap", "steps1"], ["swap", "swap", "ret"], ["adv52"], ["steps2", "swap", "ret"], ["ret", "steps1", "swap"], ["swap", "steps2", "swap"],
           ["steps1", "swap", "steps1", "swap"], ["adv52", "swap", "ret"]]
    for s in (rep[:4] if q else rep):
        cases.append(dict(chains="mixed", N=3, script=s, seed=2 + seed, display=True, capacity=None, real=False))
        cases.append(dict(chains="GibbsChain", N=4, script=s[:3], seed=4 + seed, display=True, capacity=None, real=False))
    for s in ([["steps1", "swap"], ["swap", "ret"]] if q else [["steps1", "swap"], ["swap", "steps1", "ret"], ["adv52"], ["swap", "swap"], ["ret", "ret", "steps2"]]):
        for N in (2, 3):
            cases.append(dict(chains="GibbsChain", N=N, script=s, seed=3 + seed, display=True, capacity=1, real=False, crosscheck=(N == 2 and len(s) == 2 and s[0] == "steps1")))
    for s in (["steps2"], ["adv52"], ["steps1", "swap", "steps2"], ["adv52", "ret", "steps1"]):
        for N in (2, 3):
            cases.append(dict(chains="GibbsChain", N=N, script=s, seed=8 + seed, display=True, capacity=None, real=False, unequal=True))
    if not q:
        for L in (1, 2):
            for script in itertools.product(COMMANDS, repeat=L):
                cases.append(dict(chains="GibbsChain", N=4, script=list(script), seed=5 + seed, display=True, capacity=None, real=False))
        for s in rep[:3]:
            cases.append(dict(chains="GibbsChain", N=5, script=s[:2], seed=6 + seed, display=True, capacity=None, real=False))
        for script in itertools.product(COMMANDS, repeat=4):
            if (sum(COMMANDS.index(c) * 5 ** i for i, c in enumerate(script)) + seed) % 5 == 0:
                cases.append(dict(chains="mixed", N=2, script=list(script), seed=7 + seed, display=True, capacity=None, real=False))
    ck.run_cases("schedules", cases, chunk=1)
    # conformance runs on real multiprocessing must be made from the (non-daemonic) main process
    seenr = set()
    rc = []
    for c in cases:
        k = (c["chains"], c["N"], tuple(c["script"]), c["seed"])
        if c["real"] and c["display"] and k not in seenr:
            seenr.add(k)
            rc.append(dict(chains=c["chains"], N=c["N"], script=c["script"], seed=c["seed"]))
    rc.append(dict(chains="mixed", N=3, script=["steps2", "swap", "steps1", "swap"], seed=7 + seed))
    ck.run_cases("realmp", rc, parallel=False)
    # ---- exchange rule
    ex = []
    for N in (2, 3, 4):
        for kind in ("GibbsChain", "PcaChain", "HamiltonianChain"):
            for pre in (0, 2):
                if q and pre and kind != "GibbsChain":
                    continue
                ex.append(dict(chains=kind, N=N, seed=1 + seed, presteps=pre))
    for N in (2, 3, 4):
        ex.append(dict(chains="GibbsChain", N=N, seed=1 + seed, presteps=1, ladder="unsorted"))
    for N in (2, 3):
        ex.append(dict(chains="GibbsChain", N=N, seed=1 + seed, presteps=1, rounds=2))
    for N in (2, 3, 4):
        ex.append(dict(chains="GibbsChain", N=N, seed=1 + seed, presteps=1, ladder="tied", rounds=2 if N == 2 else 1))
    ex.append(dict(chains="HamiltonianChain", N=2, seed=1 + seed, presteps=0, rounds=3 if not q else 2, ladder="unsorted"))
    if not q:
        ex.append(dict(chains="mixed", N=5, seed=2, presteps=1))
        ex.append(dict(chains="mixed", N=5, seed=2, presteps=1, ladder="unsorted"))
    ck.run_cases("exchange", ex, chunk=1)
    ck.run_cases("installed", [dict(sampler=k, limits=lim, T=T, target=tg, shape=[6], alphabet=[-2.0, -1.0, 1.0, 2.0], weights=[0.15, 0.35, 0.35, 0.15], R=2, warm=2, warm_delta=1.0)
                               for k in ("GibbsChain", "MetropolisChain", "PcaChain") for lim in (None,) for T in (1.0, 2.5) for tg in (("unimodal",) if q else ("unimodal", "bimodal", "ties"))], chunk=1)
    ck.run_cases("pairs", [dict(N=N, method=m) for N in range(1, 8 if not q else 7) for m in ("tight_pairs", "uniform_pairs")], chunk=1)
    ns = list(range(0, 61)) + [99, 100, 101, 130] if q else list(range(0, 131))
    sis = (1, 2, 3, 5, 7, 10, 12) if q else range(1, 13)
    ck.run_cases("arith", [dict(N=2 + (si % 2), si=si, ns=ns[k::4]) for si in sis for k in range(4)], chunk=1)
    ck.rule = ("all interleavings of parent + N worker processes for every command script of the listed lengths, by explicit-state search over global states "
               "(per-process IPC history + pending operation, channel contents, shutdown flag) composed from local steps that were each observed in a real execution; every real execution "
               "first checks that the real world carries the predicted state, every 97th composed state and every final state is re-executed for real, and on the small configurations the "
               "graph is compared with the plain search that reaches every state by a real execution (traces_validated_against_impl counts these real executions); all pairings and "
               "accept/reject outcomes of swap() under the scripted generator incl. consecutive rounds and unsorted ladders; all (n, swap_interval) on the listed grid. "
               "Distinct non-trivial = (N, capacity, display, order of magnitude of states) / accepted+rejected exchanges per N, class, ladder / pairings / arithmetic classes")
    ck.assume("scheduling points at IPC operations only (workers are separate address spaces); a process is a deterministic function of what it has received and of the shutdown flag "
              "(the assumption under which states are merged and local steps are memoised; audited by the conformance executions)")
    ck.assume("scripts up to the listed length; N <= 4 (quick) / 5 (thorough) for interleavings; ParallelTempering.run_for is exercised under a virtual clock in C15")
