"""C20 – conditional approximation: piecewise_linear_sample, get_conditionals, conditional_sample.

Engines A + D.  The module-level ``rng`` of inference.approx.conditional is replaced by a scripted
generator (mc.ref.c20_ref.CellURng): the ``p`` handed to ``choice`` is captured and the draw is
answered with *every* cell of positive probability x every u of the listed alphabet, so one call of
the real sampler enumerates its whole (cell, u) space.

* pls      – every ascending grid of 2..5 nodes over the spacing alphabet x every table over the
             value alphabet (not all zero): captured p = exact cell masses of the piecewise-linear
             interpolant; sample = x_i + inverse CDF of the linear density on the cell at u; inside
             the grid.
* cond     – get_conditionals on a catalogue {separable, correlated rho=.9, skewed} x scales
             (1e-9 .. 1e9, thorough 1e-12 .. 1e12) x location of the distribution (centre 0, +-1e3
             scales from the origin, thorough +-1e6) x bounds x conditioning points x grid sizes: shape, grid inside the bounds, coverage of
             the part above 1e-3 of the peak, table proportional to the true conditional through the
             point, normalisation against exact quadrature.
* narrow   – get_conditionals on conditionals very narrow relative to the bounds (width 1e-2 .. 1e-6 of the bounds) with the conditioning coordinate in the
             high-density region and anywhere in the bounds (fractions, next to / on an edge, a few widths from a search node) x the same families, scales
             and locations; the clauses of cond (keys narrow/...), which include  <pre>/grid-does-not-resolve-the-high-density-region  (fewer than 1/8 of the
             nodes where the conditional exceeds 1e-3 of its peak) and a normalisation tolerance capped at 1e-2.
* csample  – conditional_sample with the scripted generator: every cell x u of every parameter's
             table lies inside the bounds and follows the interpolant of the get_conditionals table.
"""
import itertools
import math

import numpy as np

from mc.core import HarnessError, fail, lib
from mc.ref import c20_ref as R

LEVEL = "exploration"

EPS = R.EPS
US = [0.0, 0.01, 0.25, 0.5, 0.75, 0.99]
SPACINGS = [0.5, 1.0, 2.0, 7.0]
VALUES = [0.0, 1.0, 3.0, 10.0]
# second value alphabet: nearly flat cells on both sides of |dh| = 1e-5, where an implementation may switch
# to a series form of the inverse CDF (dh = (p1-p0)/(p1+p0): 5e-7, 9.5e-6, 1.05e-5, 5e-5 and differences)
VALUES_FLAT = [1.0, 1.0 + 1e-6, 1.0 + 1.9e-5, 1.0 - 2.1e-5, 1.0 + 1e-4]
# tolerance of the within-cell position in units of the cell width.  A closed-form inverse CDF loses
# at most ~4 eps/|dh| to cancellation (|dh| >= 1e-5 -> 9e-11); a series form used for |dh| < 1e-5
# has a remainder <= dh^2 max|u(1-u)(1-2u)| < 1e-11.  1e-9 leaves a factor 10.
TOL_UNIT = 1e-9
TOL_MASS = 32 * EPS
# 'matches the true conditional': at least 1/RESOLVE_SHARE of the nodes of the returned grid lie in the region it has to cover (conditional above 1e-3 of
# its peak), and the normalisation error admitted for a coarse grid is capped (the library's own test suite asks 1e-3 of the values)
RESOLVE_SHARE = 8
NORM_CAP = 1e-2


def _install(us):
    import inference.approx.conditional as C

    if not hasattr(C, "rng"):
        raise HarnessError("inference.approx.conditional has no module-level `rng` to script")
    stub = R.CellURng(us)
    old = C.rng
    C.rng = stub
    return C, stub, old


def check_draws(x, table, s, idx, u, tagprefix, fails, slack, details):
    """oracles for the draws of one call given the scripted (cell, u) of each draw"""
    x = np.asarray(x, dtype=float)
    table = np.asarray(table, dtype=float)
    s = np.asarray(s, dtype=float)
    if s.shape != idx.shape:
        fails.append(fail(f"{tagprefix}/shape", f"returned shape {s.shape}, requested {idx.shape}", **details))
        return
    if not np.isfinite(s).all():
        j = int(np.nonzero(~np.isfinite(s))[0][0])
        fails.append(fail(f"{tagprefix}/non-finite-sample", f"sample {s[j]} for cell {int(idx[j])} u={u[j]}", **details))
        return
    if (s < x[0]).any() or (s > x[-1]).any():
        j = int(np.nonzero((s < x[0]) | (s > x[-1]))[0][0])
        fails.append(fail(f"{tagprefix}/outside-grid", f"sample {float(s[j])!r} outside [{x[0]},{x[-1]}] (cell {int(idx[j])}, u={u[j]})", **details))
    p0, p1 = table[idx], table[idx + 1]
    dx = x[idx + 1] - x[idx]
    t = R.cell_inverse_cdf(p0, p1, u)
    exp = x[idx] + t * dx
    tol = TOL_UNIT * dx + 4 * EPS * np.abs(exp)
    err = np.abs(s - exp) / tol
    j = int(err.argmax())
    slack["within-cell position"] = max(slack.get("within-cell position", 0.0), float(err[j]))
    if err[j] > 1.0:
        fails.append(
            fail(
                f"{tagprefix}/within-cell-law",
                f"cell {int(idx[j])} [{x[idx[j]]},{x[idx[j]+1]}] density {p0[j]}->{p1[j]}, u={u[j]}: sample {float(s[j])!r}, "
                f"inverse CDF of the linear density gives {float(exp[j])!r} (|diff|/tol={err[j]:.3g})",
                **details,
            )
        )


def ev_pls(case):
    C, stub, old = _install(US)
    try:
        sp = case["spacings"]
        x = np.concatenate([[case["x0"]], case["x0"] + np.cumsum(sp)])
        n = len(x)
        uniform = len(set(sp)) == 1
        gclass = "uniform" if uniform else "nonuniform"
        A = case["alphabet"]
        mult = case["mult"]
        fails, tags, slack, nev = [], set(), {}, 0
        seen = set()
        for tidx in itertools.product(range(len(A)), repeat=n):
            table = np.array([A[i] for i in tidx], dtype=float) * mult
            if not (table > 0).any():
                continue
            details = {"x": x.tolist(), "table": table.tolist()}
            ncell = n - 1
            stub.p_log.clear(), stub.idx_log.clear(), stub.u_log.clear()
            with lib("piecewise_linear_sample"):
                s = C.piecewise_linear_sample(x.copy(), table.copy(), ncell * len(US))
            nev += 1
            if len(stub.p_log) != 1 or len(stub.u_log) != 1:
                raise HarnessError(f"expected one choice and one random call, saw {len(stub.p_log)}/{len(stub.u_log)}")
            p = stub.p_log[0]
            m = R.cell_masses(x, table)
            if p.shape != m.shape:
                fails.append(fail(f"pls/grid={gclass}/cell-count", f"p has {p.size} entries for {ncell} cells", **details))
                continue
            e = np.abs(p - m)
            slack["cell mass"] = max(slack.get("cell mass", 0.0), float(e.max() / TOL_MASS))
            if e.max() > TOL_MASS:
                key = f"pls/grid={gclass}/cell-mass"
                if key not in seen:
                    seen.add(key)
                    fails.append(
                        fail(key, f"x={x.tolist()} table={table.tolist()}: cell probabilities handed to choice {p.tolist()}, "
                             f"exact masses of the piecewise-linear interpolant {m.tolist()}", observed=p.tolist(), expected=m.tolist(), **details)
                    )
            idx, u = stub.idx_log[0], stub.u_log[0]
            ok = m[idx] > 0  # cells of zero true mass can only be reached through a wrong p (reported above)
            fl = []
            check_draws(x, table, np.asarray(s, dtype=float)[ok] if np.shape(s) == idx.shape else s, idx[ok], u[ok], "pls", fl, slack, details)
            for f in fl:
                if f["key"] not in seen:
                    seen.add(f["key"])
                    fails.append(f)
            dh = (table[1:] - table[:-1]) / np.where(table[1:] + table[:-1] > 0, table[1:] + table[:-1], 1.0)
            tags.add(
                f"nodes={n},grid={gclass},zero-mass-cell={bool((m == 0).any())},zero-endpoint={bool((np.abs(dh) == 1).any())},"
                f"flat={bool((dh == 0).any())},nearly-flat={bool(((np.abs(dh) < 1e-5) & (dh != 0)).any())}"
            )
        return {"fails": fails, "n": nev, "tags": tags, "slack": slack,
                "sample": {"x": x.tolist(), "table": table.tolist(), "p": p.tolist(), "first_draws": np.asarray(s)[:6].tolist()}}
    finally:
        C.rng = old


# ----------------------------------------------------------------------------- get_conditionals
def build_cond_case(case):
    fam = R.make_family(case["family"], case["s"], case.get("loc", 0.0))
    d = fam.d
    mode = fam.mode()
    sig = fam.sig()
    signs = np.array([1.0, -1.0, 1.0])[:d]
    cpk = case["cp"]
    if cpk == "mode":
        c = mode.copy()
    elif cpk == "off+":
        c = mode + 0.6 * sig * signs
    elif cpk == "off-":
        c = mode - 0.6 * sig * signs
    elif cpk == "far":  # conditioning coordinate outside the bulk of its conditional: the 16-point search has to meet it
        c = mode + (3.0 if case["family"] == "skewed" else 5.0) * sig * signs
    else:
        raise HarnessError(cpk)
    lower_nat = fam.lower if fam.lower is not None else np.full(d, -math.inf)
    bounds, info = [], []
    W = case["W"]
    for i in range(d):
        f = R.line(fam, c, i)
        m, w = R.cond_mode_width(f, c[i], sig[i], lower=lower_nat[i])
        if cpk != "far" and not (f(c[i]) >= f(m) - 2.0):
            raise HarnessError("conditioning coordinate is not in the high-density region of its conditional")
        bk = case["bounds"]
        lo, hi = m - 0.93 * W * w, m + 1.07 * W * w
        if bk == "wide":
            pass
        elif bk == "clip-hi":
            hi = max(c[i], m) + 0.4 * w
        elif bk == "clip-lo":
            lo = min(c[i], m) - 0.4 * w
        elif bk == "clip-past-mode":  # the mode of the conditional is outside the bounds: monotone inside
            if c[i] < m - 0.3 * w:
                hi = c[i] + 0.25 * w
            elif c[i] > m + 0.3 * w:
                lo = c[i] - 0.25 * w
            else:
                hi = m + 0.4 * w
        elif bk == "cp-on-node":  # the conditioning coordinate coincides with one of the 16 search nodes
            k = 5 + (i % 3)
            span = 2.0 * W * w
            lo = c[i] - span * k / 15.0
            hi = lo + span
        else:
            raise HarnessError(bk)
        lo = max(lo, lower_nat[i])
        if not (lo <= c[i] <= hi):
            raise HarnessError("conditioning coordinate outside the bounds")
        if cpk == "far":
            # domain of the statement: the bulk must then be met by the initial 16-point search (a node within one width of the peak)
            pk = min(max(m, lo), hi)
            nodes = np.linspace(lo, hi, 16)
            if np.abs(nodes - pk).min() > w:
                raise HarnessError("far conditioning point with bounds too wide for the 16-point search: outside the quantifier")
        bounds.append((float(lo), float(hi)))
        info.append((f, m, w))
    return fam, c, bounds, info


def integrate(f, fref, a, b, m, w):
    """integral of exp(f - fref) over [a,b] by adaptive quadrature with break points around the mode"""
    from scipy.integrate import quad

    if b <= a:
        return 0.0
    # far from the origin the standardised coordinate (x - centre)/width carries the rounding eps*|x|/width, and so does f:
    # asking the quadrature for more than that only produces warnings
    epsrel = max(1e-13, 16 * EPS * max(abs(a), abs(b)) / w)
    pts = sorted({min(max(m + k * w, a), b) for k in (-8, -4, -2, -1, 0, 1, 2, 4, 8)} | {a, b})
    tot = 0.0
    for p, q in zip(pts[:-1], pts[1:]):
        if q > p:
            v, _ = quad(lambda z: math.exp(f(z) - fref), p, q, epsabs=0.0, epsrel=epsrel, limit=200)
            tot += v
    return tot


def config_class(case):
    """key component naming the part of the lattice a case belongs to: '' for the original lattice (scale within 1e+-3, centred
    within a few widths of the origin), else the direction in which the scale / location is extreme - a defect that only shows at
    such scales (absolute tolerances, absolute steps) is a different defect from one seen on the ordinary lattice"""
    s, loc = case["s"], case.get("loc", 0.0)
    parts = []
    if s < 1e-3:
        parts.append("tiny-scale")
    elif s > 1e3:
        parts.append("huge-scale")
    if loc != 0.0:
        parts.append("far-location")
    return "".join("/" + p for p in parts)


def check_conditional(i, xg, yg, lo, hi, f, m, w, grid_size, fails, slack, details, pre="cond"):
    """all clauses of the statement for one returned conditional"""
    if xg.shape != (grid_size,) or yg.shape != (grid_size,):
        fails.append(fail(f"{pre}/shape", f"variable {i}: shapes {xg.shape},{yg.shape} for grid_size {grid_size}", **details))
        return
    if not (np.isfinite(xg).all() and np.isfinite(yg).all()):
        fails.append(fail(f"{pre}/non-finite", f"variable {i}: non-finite axis or density", **details))
        return
    if not (np.diff(xg) > 0).all():
        fails.append(fail(f"{pre}/grid-not-ascending", f"variable {i}", **details))
        return
    if xg[0] < lo or xg[-1] > hi:
        fails.append(fail(f"{pre}/grid-outside-bounds", f"variable {i}: grid [{float(xg[0])!r},{float(xg[-1])!r}] bounds [{lo!r},{hi!r}]", **details))
    if (yg < 0).any():
        fails.append(fail(f"{pre}/negative-density", f"variable {i}", **details))
    # --- proportional to the true conditional through the point
    peak_x = min(max(m, lo), hi)
    fpk = f(peak_x)
    fx = np.array([f(z) for z in xg])
    true = np.exp(fx - fpk)
    ratio = yg / true
    cmed = float(np.median(ratio))
    # exp(f - f_ref) carries the rounding of f itself: eps*|f| in relative terms, plus the dynamic range
    tol_prop = 64 * EPS * (4.0 + float(np.abs(fx).max()) + abs(fpk))
    spread = float(np.abs(ratio / cmed - 1.0).max())
    slack["proportional to true conditional"] = max(slack.get("proportional to true conditional", 0.0), spread / tol_prop)
    if not spread <= tol_prop:
        j = int(np.abs(ratio / cmed - 1.0).argmax())
        fails.append(
            fail(f"{pre}/not-the-true-conditional", f"variable {i}: table/true conditional varies by {spread:.3g} over the grid "
                 f"(at x={float(xg[j])!r} table {float(yg[j])!r}, true shape {float(true[j])!r}, constant {cmed!r})", **details)
        )
        return
    # --- coverage: outside the grid (inside the bounds) the conditional is below 1e-3 of its peak
    thr = math.log(1e-3)
    worst = -math.inf
    for edge, bound, sgn in ((xg[0], lo, -1.0), (xg[-1], hi, 1.0)):
        gap = abs(edge - bound)
        if gap <= 0:
            continue
        pts = [edge] + [edge + sgn * gap * q for q in (1e-6, 1e-4, 1e-2, 0.1, 0.5, 1.0)]
        pts += [edge + sgn * min(gap, k * w) for k in (0.01, 0.1, 0.5, 1.0, 3.0)]
        for z in pts:
            v = f(min(max(z, lo), hi)) - fpk
            worst = max(worst, v)
    if worst > -math.inf:
        slack["density left outside the grid / 1e-3 peak"] = max(slack.get("density left outside the grid / 1e-3 peak", 0.0), math.exp(worst - thr))
    if worst >= thr:
        fails.append(
            fail(f"{pre}/grid-misses-high-density-region", f"variable {i}: conditional reaches {math.exp(worst):.3g} of its peak outside the "
                 f"grid [{float(xg[0])!r},{float(xg[-1])!r}] but inside the bounds [{lo!r},{hi!r}]", **details)
        )
    # --- the table resolves the conditional it is said to match: a share of the nodes lies where the conditional exceeds 1e-3 of its peak
    inside = int((fx - fpk > thr).sum())
    slack["nodes needed in the high-density region / nodes there"] = max(slack.get("nodes needed in the high-density region / nodes there", 0.0), (grid_size / RESOLVE_SHARE) / max(inside, 0.5))
    if inside * RESOLVE_SHARE < grid_size:
        fails.append(
            fail(f"{pre}/grid-does-not-resolve-the-high-density-region", f"variable {i}: only {inside} of the {grid_size} nodes of the grid [{float(xg[0])!r},{float(xg[-1])!r}] "
                 f"(spacing {float(xg[1] - xg[0]):.3g}) lie where the conditional exceeds 1e-3 of its peak (peak at {float(peak_x)!r}, width {w:.3g})", **details)
        )
    # --- normalisation against exact quadrature
    zg = integrate(f, fpk, xg[0], xg[-1], m, w)
    zb = zg + integrate(f, fpk, max(lo, xg[0] - 60 * (xg[-1] - xg[0])), xg[0], m, w) + integrate(f, fpk, xg[-1], min(hi, xg[-1] + 60 * (xg[-1] - xg[0])), m, w)
    # admissible error: that of the two standard composite rules on this very grid
    e_rule = max(abs(R.simpson_ref(true, xg) / zg - 1.0), abs(R.trapz_ref(true, xg) / zg - 1.0))
    # ... but a grid too coarse for either rule does not excuse the table from being a normalised density: capped
    tol_n = min(4.0 * e_rule + 1e-9, NORM_CAP)
    val = cmed * zg
    lo_ok, hi_ok = zg / zb - tol_n, 1.0 + tol_n
    dev = max(lo_ok - val, val - hi_ok, 0.0)
    slack["normalisation"] = max(slack.get("normalisation", 0.0), (abs(val - 1.0) if val > 1 else max(zg / zb - val, 0.0) + 0.0) / tol_n)
    if dev > 0:
        fails.append(
            fail(f"{pre}/not-normalised", f"variable {i}: the table integrates (exactly, as c*true conditional over the grid) to {val!r}; "
                 f"admissible [{lo_ok!r},{hi_ok!r}] (quadrature error of Simpson/trapezium on this grid {e_rule:.3g})", **details)
        )


def ev_cond(case):
    from inference.approx.conditional import get_conditionals

    fam, c, bounds, info = build_cond_case(case)
    gs = case["grid_size"]
    fails, slack = [], {}
    details = {"bounds": bounds, "conditioning_point": c.tolist()}
    pre = "cond" + config_class(case)
    c_in = c.copy()
    with lib("get_conditionals"):
        axes, probs = get_conditionals(posterior=fam, bounds=[tuple(b) for b in bounds], conditioning_point=c_in, grid_size=gs)
    axes, probs = np.asarray(axes), np.asarray(probs)
    if axes.shape != (gs, fam.d) or probs.shape != (gs, fam.d):
        fails.append(fail(f"{pre}/shape", f"axes {axes.shape}, probs {probs.shape}, expected {(gs, fam.d)}", **details))
        return {"fails": fails, "n": 1}
    tags = set()
    for i in range(fam.d):
        f, m, w = info[i]
        lo, hi = bounds[i]
        check_conditional(i, axes[:, i], probs[:, i], lo, hi, f, m, w, gs, fails, slack, details, pre=pre)
        at_lo, at_hi = axes[0, i] == lo, axes[-1, i] == hi
        met = (hi - lo) / 15.0 < 4 * w
        tags.add(f"{case['family']},s={case['s']},loc={case.get('loc', 0.0)},bounds={case['bounds']},cp={case['cp']},grid-ends-at-bound={bool(at_lo)}/{bool(at_hi)},met-by-16pt-search={met}")
    return {"fails": fails, "n": 1, "tags": tags, "slack": slack,
            "sample": {"case": case, "bounds": bounds, "axis0": axes[:3, 0].tolist(), "prob0": probs[:3, 0].tolist()}}


def ev_csample(case):
    fam, c, bounds, info = build_cond_case(case)
    C, stub, old = _install(US)
    try:
        fails, slack, tags = [], {}, set()
        details = {"bounds": bounds, "conditioning_point": c.tolist()}
        pre = "csample" + config_class(case)
        with lib("get_conditionals"):
            axes, probs = C.get_conditionals(posterior=fam, bounds=[tuple(b) for b in bounds], conditioning_point=c.copy())
        gs = axes.shape[0]
        ns = (gs - 1) * len(US)
        with lib("conditional_sample"):
            S = C.conditional_sample(posterior=fam, bounds=[tuple(b) for b in bounds], conditioning_point=c.copy(), n_samples=ns)
        S = np.asarray(S)
        if S.shape != (ns, fam.d):
            fails.append(fail(f"{pre}/shape", f"shape {S.shape}, expected {(ns, fam.d)}", **details))
            return {"fails": fails, "n": 1}
        if len(stub.p_log) != fam.d:
            raise HarnessError(f"expected one choice call per parameter, saw {len(stub.p_log)}")
        for i in range(fam.d):
            lo, hi = bounds[i]
            col = S[:, i]
            bad = ~((col >= lo) & (col <= hi))  # also catches nan
            if bad.any():
                j = int(np.nonzero(bad)[0][0])
                fails.append(fail(f"{pre}/outside-bounds", f"parameter {i}: sample {float(col[j])!r} outside [{lo!r},{hi!r}] "
                                  f"(cell {int(stub.idx_log[i][j])}, u={stub.u_log[i][j]})", **details))
            m = R.cell_masses(axes[:, i], probs[:, i])
            e = float(np.abs(stub.p_log[i] - m).max())
            slack["csample cell mass"] = max(slack.get("csample cell mass", 0.0), e / (8 * gs * EPS))
            if e > 8 * gs * EPS:
                fails.append(fail(f"{pre}/cell-mass", f"parameter {i}: cell probabilities differ from the interpolant of the table by {e:.3g}", **details))
            idx, u = stub.idx_log[i], stub.u_log[i]
            ok = m[idx] > 0
            check_draws(axes[:, i], probs[:, i], col[ok], idx[ok], u[ok], pre, fails, slack, details)
            tags.add(f"csample {case['family']},s={case['s']},loc={case.get('loc', 0.0)},bounds={case['bounds']},cp={case['cp']},cells={int((m > 0).sum())}")
        return {"fails": fails[:20], "n": 2, "tags": tags, "slack": slack}
    finally:
        C.rng = old


# ----------------------------------------------------------------------------- narrow conditionals
# conditionals very narrow relative to the bounds: width of the conditional = REL x width of the bounds, the conditioning coordinate in the
# high-density region (the only way such a conditional is in the quantifier: the 16-point search cannot meet it), anywhere in the bounds
NARROW_RELS = [1e-2, 1e-3, 1e-4, 1e-5, 1e-6, 1e-7, 1e-8]
# position of the conditioning coordinate in the bounds: ("frac", t) at the fraction t of the bounds; ("node", k, q) q conditional widths from the
# k-th of the 16 evenly spaced nodes (k = 0 / 15: the edges of the bounds; q = 0: exactly on the node / edge)
NARROW_POS = [("frac", 0.4321), ("node", 0, 1.0), ("node", 15, -1.0), ("frac", 0.03), ("frac", 0.97), ("node", 0, 6.0), ("node", 15, -6.0), ("node", 5, 6.0),
              ("node", 0, 30.0), ("node", 15, -30.0), ("node", 10, -30.0), ("node", 10, 1.0), ("node", 0, 0.0), ("node", 15, 0.0)]


def pos_name(pos):
    return f"frac={pos[1]}" if pos[0] == "frac" else f"node{pos[1]}{pos[2]:+g}w"


def build_narrow_case(case):
    fam = R.make_family(case["family"], case["s"], case.get("loc", 0.0))
    d = fam.d
    mode, sig = fam.mode(), fam.sig()
    signs = np.array([1.0, -1.0, 1.0])[:d]
    c = mode + {"mode": 0.0, "off+": 0.6, "off-": -0.6}[case["cp"]] * sig * signs
    lower_nat = fam.lower if fam.lower is not None else np.full(d, -math.inf)
    pos = case["pos"]
    bounds, info = [], []
    for i in range(d):
        f = R.line(fam, c, i)
        m, w = R.cond_mode_width(f, c[i], sig[i], lower=lower_nat[i])
        if not (f(c[i]) >= f(m) - 2.0):
            raise HarnessError("conditioning coordinate is not in the high-density region of its conditional")
        B = w / case["rel"]
        if pos[0] == "frac":
            lo = c[i] - pos[1] * B
        else:
            lo = c[i] - pos[2] * w - B * pos[1] / 15.0
        hi = lo + B
        if pos[0] == "node" and pos[2] == 0.0:  # exactly on the edge / node
            if pos[1] == 0:
                lo, hi = float(c[i]), float(c[i]) + B
            elif pos[1] == 15:
                lo, hi = float(c[i]) - B, float(c[i])
        lo = max(lo, lower_nat[i])
        if not (lo <= c[i] <= hi):
            raise HarnessError(f"conditioning coordinate outside the bounds: {lo!r} {c[i]!r} {hi!r}")
        bounds.append((float(lo), float(hi)))
        info.append((f, m, w))
    return fam, c, bounds, info


def ev_narrow(case):
    from inference.approx.conditional import get_conditionals

    fam, c, bounds, info = build_narrow_case(case)
    gs = case["grid_size"]
    fails, slack, tags = [], {}, set()
    details = {"bounds": bounds, "conditioning_point": c.tolist(), "case": case}
    pre = f"narrow{config_class(case)}"
    with lib("get_conditionals"):
        axes, probs = get_conditionals(posterior=fam, bounds=[tuple(b) for b in bounds], conditioning_point=c.copy(), grid_size=gs)
    axes, probs = np.asarray(axes), np.asarray(probs)
    if axes.shape != (gs, fam.d) or probs.shape != (gs, fam.d):
        fails.append(fail(f"{pre}/shape", f"axes {axes.shape}, probs {probs.shape}, expected {(gs, fam.d)}", **details))
        return {"fails": fails, "n": 1}
    for i in range(fam.d):
        f, m, w = info[i]
        lo, hi = bounds[i]
        sl = {}
        check_conditional(i, axes[:, i], probs[:, i], lo, hi, f, m, w, gs, fails, sl, dict(details, variable=i, conditional_width=w, conditional_mode=m), pre=pre)
        for k_, v in sl.items():
            slack[f"narrow {k_}"] = max(slack.get(f"narrow {k_}", 0.0), v)
        nodes = np.linspace(lo, hi, 16)
        dn = float(np.abs(nodes - c[i]).min())
        nearest = "on-a-search-node" if dn == 0 else ("search-node-inside-the-peak" if dn < 3 * w else "no-search-node-within-3-widths")
        tags.add(f"narrow {case['family']},s={case['s']},loc={case.get('loc', 0.0)},rel={case['rel']},pos={pos_name(case['pos'])},cp={case['cp']},{nearest},"
                 f"mode-inside-bounds={bool(lo <= m <= hi)}")
    return {"fails": fails[:20], "n": 1, "tags": tags, "slack": slack,
            "sample": {"case": case, "bounds": bounds, "axis0": axes[:3, 0].tolist(), "prob0": probs[:3, 0].tolist()}}


EVALUATORS = {"pls": ev_pls, "cond": ev_cond, "csample": ev_csample, "narrow": ev_narrow}

FAMS = ["separable", "correlated", "skewed"]
SCALES = [1e-3, 1.0, 1e3]
# scales far from 1 in both directions (an absolute tolerance or step anywhere in the search shows up at one end or the other)
SCALES_FAR = [1e-6, 1e6, 1e-9, 1e9]
# location of the whole distribution in units of the scale: every coordinate shifted by loc * s (centre 1e3 widths from the origin)
LOCS = [0.0, 1e3, -1e3]
# thorough tier only
SCALES_FAR_MORE = [1e-12, 1e12]
LOCS_MORE = [1e6, -1e6]
BOUNDS = ["wide", "clip-hi", "clip-lo", "clip-past-mode", "cp-on-node"]
CPS = ["mode", "off+", "off-"]


def run(ck):
    seed, quick = ck.seed, ck.quick
    # ---- piecewise_linear_sample
    offsets = [0.0, -3.25, 1000.0]
    cases = []
    nmax = 5 if quick else 6
    for n in range(2, nmax + 1):
        for sp in itertools.product(SPACINGS, repeat=n - 1):
            if quick and n == 5 and sum(SPACINGS.index(v) for v in sp) % 2 != seed % 2:
                continue  # quick: the half of the 5-node grids whose spacing indices have the parity of the seed
            if (quick and n >= 4) or n == 6:
                offs = [offsets[(seed + len(cases)) % len(offsets)]]
            else:
                offs = offsets
            for off in offs:
                cases.append({"spacings": list(sp), "x0": off, "alphabet": VALUES, "mult": 1.0})
    # nearly flat tables and rescaled tables (normalisation must not depend on the units of the table)
    for n in range(2, 5):
        for sp in itertools.product(SPACINGS, repeat=n - 1):
            if n == 4 and quick and sum(SPACINGS.index(v) for v in sp) % 4 != (seed + 1) % 4:
                continue
            cases.append({"spacings": list(sp), "x0": 0.0, "alphabet": VALUES_FLAT, "mult": 1.0})
            if n <= 3 or not quick:
                cases.append({"spacings": list(sp), "x0": -3.25, "alphabet": VALUES, "mult": [1e-6, 1e6][(seed + len(cases)) % 2]})
    ck.run_cases("pls", cases)
    # ---- get_conditionals
    ccases = []
    far = SCALES_FAR if quick else SCALES_FAR + SCALES_FAR_MORE
    locs = LOCS if quick else LOCS + LOCS_MORE
    # the original lattice first (simplest first), then every scale x every location
    blocks = [(0.0, SCALES)] + [(loc, SCALES + far) for loc in locs]
    Ws = [12.0, 400.0]
    gss = [64, 128, 33]
    k = 0
    for loc, scales in blocks:
        for famn in FAMS:
            for s in scales:
                if loc == 0.0 and scales is not SCALES and s in SCALES:
                    continue  # already listed (the original lattice comes first: simplest first)
                for bk in BOUNDS:
                    for cp in CPS + ["far"]:
                        for W in Ws:
                            if cp == "far" and W != 12.0:
                                continue
                            k += 1
                            gsl = gss if not quick else [gss[(seed + k) % 3]]
                            for gs in gsl:
                                ccases.append({"family": famn, "s": s, "loc": loc, "bounds": bk, "cp": cp, "W": W, "grid_size": gs})
    ck.run_cases("cond", ccases, chunk=1)
    # ---- conditional_sample
    scases = []
    k = 0
    for loc, scales in blocks:
        for famn in FAMS:
            for s in scales:
                if loc == 0.0 and scales is not SCALES and s in SCALES:
                    continue
                for bk in BOUNDS:
                    for cp in CPS + ["far"]:
                        k += 1
                        Wl = Ws if not quick else [Ws[(seed + k) % 2]]
                        if cp == "far":
                            Wl = [12.0]
                        for W in Wl:
                            scases.append({"family": famn, "s": s, "loc": loc, "bounds": bk, "cp": cp, "W": W})
    ck.run_cases("csample", scases, chunk=1)
    # ---- narrow conditionals: width = rel x width of the bounds, conditioning coordinate in the high-density region, anywhere in the bounds
    ncases = []
    nlocs = LOCS + ([LOCS_MORE[seed % 2]] if quick else LOCS_MORE)
    cps = ["mode", "off+", "off-"]
    k = 0
    for loc in nlocs:
        for famn in FAMS:
            for s in SCALES + far:
                k += 1
                for pi, pos in enumerate(NARROW_POS):
                    if quick:
                        # Latin slice: half of the positions per (location, family, scale), one width and one conditioning point per position, rotating
                        if (pi + k + seed) % 2:
                            continue
                        sel = [(NARROW_RELS[(k + pi // 2 + seed) % len(NARROW_RELS)], cps[(k + pi + seed) % 3])]
                    else:
                        sel = [(rel, cp) for rel in NARROW_RELS for cp in cps]
                    for j, (rel, cp) in enumerate(sel):
                        ncases.append({"family": famn, "s": s, "loc": loc, "rel": rel, "pos": list(pos), "cp": cp, "grid_size": gss[(seed + k + pi + j) % 3]})
    ck.run_cases("narrow", ncases)
    ck.rule = (
        "pls: every ascending grid of 2..5 (thorough: 2..6) nodes with spacings in {.5,1,2,7} (uniform and non-uniform; quick: half of the 5-node grids by seed parity; origin in {0,-3.25,1000}, "
        "rotated by seed in the quick tier) x every table over {0,1,3,10} not all zero (plus nearly flat tables straddling |dh|=1e-5 and tables rescaled by 1e-6/1e6); "
        "per call the scripted generator enumerates every positive-probability cell x u in {0,.01,.25,.5,.75,.99}. "
        "cond/csample: {separable d=3, correlated rho=.9, skewed} x scales {1e-3,1,1e3,1e-6,1e6,1e-9,1e9} (thorough: also 1e-12,1e12) x location of the whole distribution "
        "{0, +1e3, -1e3} scales from the origin (thorough: also +-1e6) x bounds {wide, clip-hi, clip-lo, clip-past-mode, "
        "cp-on-node} x conditioning point {mode, off+, off-, far (5 marginal widths off, half-width 12 only)} x bound half-width {12,400} conditional widths x grid_size {64,128,33}. "
        "A case is distinct by (nodes, uniform?, zero-mass cell, zero end value, flat, nearly flat) or by (family, scale, location, bounds, cp, grid touching a bound, met by the 16-point search). Failures outside the original lattice (scale within 1e+-3, location 0) carry their own key "
        "component (tiny-scale / huge-scale / far-location). "
        "narrow: the same three families x scales x locations {0, +-1e3, +-1e6 (quick: one sign, by seed)} x width of the conditional / width of the bounds {1e-2,1e-3,1e-4,1e-5,1e-6} x position of the "
        "conditioning coordinate in the bounds {fractions .4321, .03, .97; 1, 6, 30 conditional widths inside either edge; exactly on either edge; 6 widths above search node 5, 30 below and 1 above node 10} "
        "x conditioning point {mode, off+, off-} x grid_size rotating over {64,128,33}; all clauses as for cond, keys narrow[/tiny-scale][/huge-scale][/far-location]/<clause>; quick: a Latin slice (half of the "
        "positions per (location, family, scale), width and conditioning point rotating with position, scale and seed), thorough: the whole product. A narrow case is distinct by (family, scale, location, "
        "relative width, position, cp, whether a search node lies inside the peak / on the coordinate / nowhere near, mode inside the bounds)."
    )
    ck.assume("piecewise_linear_sample draws its cells with rng.choice(p=...) and its within-cell uniforms with rng.random/uniform of the module-level generator (one call each per invocation)")
    ck.assume("tables and grids are the listed finite alphabets; u alphabet {0,.01,.25,.5,.75,.99}")
    ck.assume("posteriors: 3 smooth log-concave families, conditioning coordinate within 2 log-units of the conditional's peak, or (cp=far) a search node within one width of the peak; 'small fraction of its peak' is taken as 1e-3")
    ck.assume("'any scales': every length of the posterior (widths, centre, bounds, conditioning point) is multiplied by s in {1e-9..1e9} (thorough 1e-12..1e12) and the whole distribution is "
              "shifted by loc*s with |loc| <= 1e3 (thorough 1e6), i.e. the centre is at most 1e6 widths from the origin, where a double still resolves 1e-10 of a width; all oracles are relative to the "
              "width of the conditional, none has an absolute length tolerance")
    ck.assume("narrow conditionals (evaluator 'narrow'): the quantifier admits a conditional that the 16-point search cannot meet only when it contains the conditioning coordinate in its "
              "high-density region; the narrow lattice therefore has no 'far' conditioning point: the coordinate is always within 2 log-units of the peak of its conditional (at the mode of the "
              "posterior or 0.6 marginal widths off it), while the bounds are 1e2 .. 1e8 conditional widths wide and placed so that the coordinate is anywhere in them, next to or exactly on an edge "
              "(the peak may then lie outside the bounds: the conditional is monotone inside) or a few widths from one of the 16 search nodes. (Widths of 1e-7 and 1e-8 of the bounds are in the lattice "
              "since the threshold search no longer stops after 20 halvings - recorded defect F31, fixed.)")
    ck.assume("'matches the true conditional' is taken to include that the returned table resolves it: at least 1/8 of the grid nodes lie where the conditional exceeds 1e-3 of its peak "
              "(grid-does-not-resolve-the-high-density-region), and the normalisation error admitted for the grid's own quadrature error is capped at 1e-2")
    ck.assume("'normalised' accepts normalisation over the grid range or over the bounds, to within 4x the larger of the Simpson/trapezium quadrature errors on the returned grid")
