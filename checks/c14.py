"""C14 – burn, thin and interval read-outs select exactly the documented samples.

Engine C: for every sampler and every chain length n (reached by real stepping, and again through save/load),
every burn in 0..n+1 and thin in 1..n+1: get_parameter / get_sample / get_probabilities equal rows burn::thin of the
full chain, first dimension = number retained, aligned; get_marginal is built from exactly those values;
get_interval over fractions x requested counts with numpy's `permutation` scripted (all permutations for size <= 4,
menu above): rows with their own probabilities, from the top fraction, all of it when no count is requested.
"""
import itertools
import math
import os
import tempfile
from fractions import Fraction

import numpy as np

from mc.core import HarnessError, fail, lib
from mc.explore import explore

LEVEL = "model_checking"
SAMPLERS = ("GibbsChain", "PcaChain", "HamiltonianChain", "EnsembleSampler", "MetropolisChain")


def post(t):
    t = np.asarray(t, dtype=float)
    return float(-0.5 * ((t - 0.3) ** 2).sum() - 0.05 * (t ** 4).sum())


def grad(t):
    t = np.asarray(t, dtype=float)
    return -(t - 0.3) - 0.2 * t ** 3


def make_chain(kind, d, steps, seed):
    from inference.mcmc import EnsembleSampler, GibbsChain, HamiltonianChain, PcaChain
    from inference.mcmc.gibbs import MetropolisChain

    start = np.array([0.5, -0.2, 0.9][:d])
    if kind == "EnsembleSampler":
        pos = np.array([[0.5, -0.2, 0.9], [1.0, 0.4, -0.3], [-0.6, 0.8, 0.2], [0.1, -0.9, 0.6]])[: d + 2, :d].copy()
        ch = EnsembleSampler(posterior=post, starting_positions=pos, display_progress=False)
    elif kind == "HamiltonianChain":
        ch = HamiltonianChain(posterior=post, grad=grad, start=start, epsilon=0.3, display_progress=False)
        ch.steps = 3
    else:
        cls = {"GibbsChain": GibbsChain, "PcaChain": PcaChain, "MetropolisChain": MetropolisChain}[kind]
        ch = cls(posterior=post, start=start, widths=np.full(d, 0.6), display_progress=False)
    ch.rng = np.random.default_rng(seed)
    for i, p in enumerate(getattr(ch, "params", [])):
        p.rng = np.random.default_rng(100 * seed + i)
    if kind == "EnsembleSampler":
        if steps:
            ch.advance(steps)
    else:
        for _ in range(steps):
            ch.take_step()
    return ch


def via_load(ch, kind):
    fd, path = tempfile.mkstemp(suffix=".npz")
    os.close(fd)
    try:
        ch.save(path)
        return type(ch).load(path, posterior=post) if kind != "HamiltonianChain" else type(ch).load(path, posterior=post, grad=grad)
    finally:
        os.unlink(path)


class Recorder:
    def __init__(self):
        self.got = None

    def __call__(self, sample, *a, **k):
        self.got = np.array(sample, copy=True)
        return self


def ev_readouts(case):
    import inference.mcmc.base as BASE

    kind, d, n, loaded = case["sampler"], case["d"], case["n"], case["loaded"]
    label = kind
    fails, fkeys, tags = [], set(), set()
    cnt = 0

    def add_fail(key, what, **kw):
        if key not in fkeys:
            fkeys.add(key)
            fails.append(fail(key, what, config=case, **kw))

    with lib("build-chain"):
        ch = make_chain(kind, d, n - 1 if kind != "EnsembleSampler" else n, case["seed"])
        if loaded:
            ch = via_load(ch, kind)
    with lib("full-readout"):
        FS = np.asarray(ch.get_sample(burn=0, thin=1))
        FP = np.asarray(ch.get_probabilities(burn=0, thin=1))
    N = FP.shape[0]
    if FS.shape != (N, d):
        add_fail(f"readout/{label}/full-sample-shape", f"{FS.shape} for {N} probabilities, d={d}")
        return {"fails": fails, "n": 1, "tags": tags}
    rec = Recorder()
    saved = (BASE.GaussianKDE, BASE.UnimodalPdf)
    BASE.GaussianKDE = rec
    BASE.UnimodalPdf = rec
    try:
        burns = range(0, N + 2) if N <= 14 else list(range(0, 6)) + [N - 2, N - 1, N, N + 1]
        thins = range(1, N + 2) if N <= 14 else list(range(1, 6)) + [N - 1, N, N + 1]
        for burn in burns:
            for thin in thins:
                idx = list(range(burn, N, thin))
                m = len(idx)
                cnt += 1
                with lib("get_sample"):
                    S = np.asarray(ch.get_sample(burn=burn, thin=thin))
                with lib("get_probabilities"):
                    P = np.asarray(ch.get_probabilities(burn=burn, thin=thin))
                if P.shape != (m,):
                    add_fail(f"readout/{label}/probabilities-first-dimension", f"burn={burn} thin={thin} of {N}: shape {P.shape}, {m} retained", burn=burn, thin=thin)
                elif not np.array_equal(P, FP[idx]):
                    add_fail(f"readout/{label}/probabilities-not-entries-burn::thin", f"burn={burn} thin={thin}", burn=burn, thin=thin)
                okshape = S.shape == (m, d) or (m == 0 and S.shape[0] == 0)
                if not okshape:
                    add_fail(f"readout/{label}/sample-first-dimension", f"burn={burn} thin={thin} of {N}: shape {S.shape}, {m} retained", burn=burn, thin=thin)
                elif m and not np.array_equal(S, FS[idx]):
                    add_fail(f"readout/{label}/sample-not-rows-burn::thin", f"burn={burn} thin={thin}", burn=burn, thin=thin)
                for i in range(d):
                    with lib("get_parameter"):
                        A = np.asarray(ch.get_parameter(i, burn=burn, thin=thin))
                    if A.shape != (m,):
                        add_fail(f"readout/{label}/parameter-first-dimension", f"index {i} burn={burn} thin={thin} of {N}: shape {A.shape}, {m} retained", burn=burn, thin=thin)
                    elif not np.array_equal(A, FS[idx, i]):
                        add_fail(f"readout/{label}/parameter-not-entries-burn::thin", f"index {i} burn={burn} thin={thin}", burn=burn, thin=thin)
                    if (burn + thin + i) % 3 == 0:
                        for uni in (False, True):
                            rec.got = None
                            with lib("get_marginal"):
                                ch.get_marginal(i, burn=burn, thin=thin, unimodal=uni)
                            got = None if rec.got is None else np.asarray(rec.got).reshape(-1)
                            if got is None or got.shape != (m,) or not np.array_equal(np.sort(got), np.sort(FS[idx, i])):
                                add_fail(f"readout/{label}/marginal-not-built-from-retained-values", f"index {i} burn={burn} thin={thin} unimodal={uni}", burn=burn, thin=thin)
                tags.add(f"{label}:retained={'0' if m == 0 else '1' if m == 1 else 'many'}:loaded={loaded}")
    finally:
        BASE.GaussianKDE, BASE.UnimodalPdf = saved
    return {"fails": fails, "n": cnt, "states": 1, "transitions": cnt, "tags": tags,
            "sample": {"sampler": kind, "n": N, "loaded": loaded, "readouts": cnt}}


def ev_interval(case):
    import inference.mcmc.base as BASE

    kind, d, n = case["sampler"], case["d"], case["n"]
    label = kind
    fails, fkeys, tags = [], set(), set()
    cnt = 0

    def add_fail(key, what, **kw):
        if key not in fkeys:
            fkeys.add(key)
            fails.append(fail(key, what, config=case, **kw))

    with lib("build-chain"):
        ch = make_chain(kind, d, n - 1 if kind != "EnsembleSampler" else n, case["seed"])
    FS = np.asarray(ch.get_sample(burn=0, thin=1))
    FP = np.asarray(ch.get_probabilities(burn=0, thin=1))
    N = FP.shape[0]
    if len(set(FP.tolist())) != N and kind != "EnsembleSampler":
        pass  # ties possible only through repeated rows; membership test below is by (row, prob) pairs
    saved = BASE.permutation

    def top_fraction(idx, f):
        m = len(idx)
        order = sorted(idx, key=lambda k: FP[k])
        cuts = {int(m * (1 - f)), int(Fraction(m) * (1 - Fraction(f)))}
        return [set(order[c:]) for c in sorted(cuts)], sorted(cuts)

    try:
        for burn in list(case["burns"]) + [N, N + 1]:  # (the last two leave no sample at all)
            for thin in case["thins"]:
                for f in case["fractions"]:
                    for want in [None] + list(range(1, N + 3)):
                        idx_user = list(range(burn, N, thin))
                        mb = len(range(burn, N))
                        idx_over = list(range(burn, N, max(mb // want, 1))) if want is not None else idx_user
                        cands = []
                        for idx in ([idx_user] if want is None else [idx_over, idx_user]):
                            sets, cuts = top_fraction(idx, f)
                            cands += sets
                        if not idx_user and want is not None and want > 2:
                            continue

                        def body(ctx):
                            def perm(k):
                                k = int(k)
                                if k <= 4:
                                    ps = list(itertools.permutations(range(k)))
                                else:
                                    ident = tuple(range(k))
                                    ps = [ident, ident[::-1]] + [ident[j:] + ident[:j] for j in range(1, k)]
                                return np.array(ps[ctx.choose("perm", [1.0 / len(ps)] * len(ps))])

                            BASE.permutation = perm
                            with lib("get_interval"):
                                return ch.get_interval(interval=f, burn=burn, thin=thin, samples=want)

                        for ctx, res in explore(body, max_exec=2000):
                            cnt += 1
                            S, P = res
                            S, P = np.asarray(S), np.asarray(P)
                            if S.ndim != 2 or P.ndim != 1 or S.shape[0] != P.shape[0] or S.shape[1:] != (d,):
                                add_fail(f"interval/{label}/{'count' if want is not None else 'all'}/not-2D-sample-with-1D-probabilities",
                                         f"interval={f} burn={burn} thin={thin} samples={want}: shapes {S.shape}, {P.shape}", burn=burn, thin=thin, f=f, samples=want, choices=ctx.choices)
                                continue
                            rows = []
                            bad = False
                            for r, p in zip(S, P):
                                ks = [k for k in range(N) if FP[k] == p and np.array_equal(FS[k], r)]
                                if not ks:
                                    bad = True
                                    break
                                rows.append(ks)
                            if bad:
                                add_fail(f"interval/{label}/{'count' if want is not None else 'all'}/row-not-a-chain-row-with-its-own-probability",
                                         f"interval={f} burn={burn} thin={thin} samples={want}", burn=burn, thin=thin, f=f, samples=want, choices=ctx.choices)
                                continue
                            ok = False
                            for top in cands:
                                if all(any(k in top for k in ks) for ks in rows):
                                    if want is None:
                                        ok = len(rows) == len(top)
                                    else:
                                        ok = len(rows) <= want
                                    if ok:
                                        break
                            if not ok:
                                add_fail(f"interval/{label}/{'count' if want is not None else 'all'}/rows-not-the-requested-top-fraction",
                                         f"interval={f} burn={burn} thin={thin} samples={want}: {len(rows)} rows returned", burn=burn, thin=thin, f=f, samples=want, choices=ctx.choices)
                            if want is not None and len(rows) > want:
                                add_fail(f"interval/{label}/count/more-rows-than-requested", f"{len(rows)} > {want}", burn=burn, thin=thin, f=f, samples=want, choices=ctx.choices)
                            tags.add(f"{label}:interval:{'all' if want is None else ('trimmed' if len(ctx.choices) else 'untrimmed')}")
    finally:
        BASE.permutation = saved
    return {"fails": fails, "n": cnt, "states": cnt, "transitions": cnt, "tags": tags}


EVALUATORS = {"readouts": ev_readouts, "interval": ev_interval}


def ev_aliasing(case):
    """Read-out histories: read-outs interleaved with steps and with replacing the last point (the public hook used by
    parallel tempering) must stay synchronised with the chain (no stale cached read-out)."""
    kind, d, n = case["sampler"], case["d"], case["n"]
    fails, fkeys, tags = [], set(), set()
    cnt = 0

    def add_fail(key, what, **kw):
        if key not in fkeys:
            fkeys.add(key)
            fails.append(fail(key, what, config=case, **kw))

    for order in case["orders"]:
        with lib("build-chain"):
            ch = make_chain(kind, d, n - 1 if kind != "EnsembleSampler" else n, case["seed"])
        FS = np.array(ch.get_sample(burn=0, thin=1), copy=True)
        FP = np.array(ch.get_probabilities(burn=0, thin=1), copy=True)
        for op in order:
            cnt += 1
            if op == "read":
                # plain read-outs in between (whether the returned arrays are copies or views is not prescribed, so the
                # harness does not write into them)
                for burn, thin in ((0, 1), (1, 2)):
                    with lib("readout"):
                        ch.get_sample(burn=burn, thin=thin), ch.get_probabilities(burn=burn, thin=thin)
                        [ch.get_parameter(i, burn=burn, thin=thin) for i in range(d)]
                        ch.get_interval(interval=0.9, burn=burn, thin=thin)
            elif op == "marginal":
                # derived read-outs (a density estimate of one parameter) are read-outs too: building one must leave the chain alone
                for burn, thin in ((0, 1), (1, 2)):
                    for i in range(d):
                        try:
                            ch.get_marginal(i, burn=burn, thin=thin)
                            tags.add("aliasing:marginal-built")
                        except Exception as e:  # an estimate from one or two points may be refused; not this property's concern
                            tags.add(f"aliasing:marginal-refused:{type(e).__name__}")
            elif op == "replace" and kind != "EnsembleSampler":
                new = FS[-1] + 0.25
                with lib("replace_last"):
                    ch.replace_last(new.copy())
                    ch.probs[-1] = post(new) * ch.inv_temp  # what the tempering process does next
                FS[-1] = new
                FP[-1] = post(new) * ch.inv_temp
            elif op == "step":
                with lib("step"):
                    if kind == "EnsembleSampler":
                        ch.advance(1)
                    else:
                        ch.take_step()
                S2 = np.asarray(ch.get_sample(burn=0, thin=1))
                P2 = np.asarray(ch.get_probabilities(burn=0, thin=1))
                k0 = FS.shape[0]
                if S2.shape[0] <= k0 or not np.array_equal(S2[:k0], FS) or not np.array_equal(P2[:k0], FP):
                    add_fail(f"aliasing/{kind}/history-changed-after-{'+'.join(order[:order.index(op)]) or 'nothing'}-then-step", f"order {order}", order=order)
                FS, FP = np.array(S2, copy=True), np.array(P2, copy=True)
                continue
            with lib("readout-after"):
                S2 = np.asarray(ch.get_sample(burn=0, thin=1))
                P2 = np.asarray(ch.get_probabilities(burn=0, thin=1))
                cols = [np.asarray(ch.get_parameter(i, burn=0, thin=1)) for i in range(d)]
            if S2.shape != FS.shape or not np.array_equal(S2, FS):
                add_fail(f"aliasing/{kind}/sample-readout-wrong-after-{op}", f"order {order}", order=order)
            if P2.shape != FP.shape or not np.array_equal(P2, FP):
                add_fail(f"aliasing/{kind}/probabilities-readout-wrong-after-{op}", f"order {order}", order=order)
            for i, c in enumerate(cols):
                if c.shape != (FS.shape[0],) or not np.array_equal(c, FS[:, i]):
                    add_fail(f"aliasing/{kind}/parameter-readout-wrong-after-{op}", f"order {order} index {i}", order=order)
        tags.add(f"aliasing:{kind}:d={d}")
    return {"fails": fails, "n": cnt, "states": cnt, "transitions": cnt, "tags": tags}


EVALUATORS["aliasing"] = ev_aliasing


def run(ck):
    q = ck.quick
    rc = []
    for kind in SAMPLERS:
        for d in (1, 2) if q else (1, 2, 3):
            ns = range(1, 13) if kind != "EnsembleSampler" else range(1, 5)
            for n in ns:
                for loaded in (False, True):
                    if loaded and (q and n not in (1, 2, 5)):
                        continue
                    rc.append(dict(sampler=kind, d=d, n=n, loaded=loaded, seed=3 + ck.seed))
    ck.run_cases("readouts", rc)
    ic = []
    for kind in SAMPLERS:
        for d in (1, 2):
            for n in ((1, 2, 3, 5, 8) if q else range(1, 11)):
                if kind == "EnsembleSampler" and n > 3:
                    continue
                ic.append(dict(sampler=kind, d=d, n=n, seed=5 + ck.seed, burns=[0, 1] if q else [0, 1, 3], thins=[1, 2] if q else [1, 2, 3],
                               fractions=[0.0, 0.1, 0.5, 0.68, 0.9, 0.95, 1.0]))
    ck.run_cases("interval", ic)
    import itertools as _it

    orders = [list(o) for L in (1, 2, 3) for o in _it.product(("read", "replace", "step", "marginal"), repeat=L)]
    ck.run_cases("aliasing", [dict(sampler=kind, d=d, n=n, seed=9 + ck.seed, orders=orders) for kind in SAMPLERS for d in (1, 2) for n in ((3, 6) if q else (2, 3, 6, 9))])
    ck.rule = ("every (burn, thin) in [0,N+1]x[1,N+1] for every chain length N (reached by real stepping, and via save/load) per sampler and dimension; "
               "get_interval for 5 fractions x samples in {None,1..N+2} x all outcomes of the scripted permutation. Distinct non-trivial = (sampler, retained 0/1/many, loaded) and interval modes")
    ck.assume("chains of length <= 12 (ensemble <= 4 iterations x (d+2) walkers); burn >= 0, thin >= 1")
