"""C18 – acquisition functions compute what they define; proposals respect bounds; add_evaluation grows the data
and leaves the caller's arrays alone.

Part D (lattice, evaluator "acq"): GP configurations (d, n, hyper-parameter pattern, noise, mean function) x query
points x acquisition class; for ExpectedImprovement additionally the improvement z-score lattice
{-40,-10,-3.5,-3-1e-9,-3,-3+1e-9,-1,0,2,8} reached through the public API (the constant term of the mean function
is solved, in mpmath, so that (mu(q) - max(y)) / sigma(q) hits the target).  Oracles:
  value/…/vs-definition     __call__ / opt_func against the definition evaluated (mpmath) on the REAL predictive
                            (mu, sigma) of the regressor:  EI = sigma (z Phi + phi) = E max(f - ymax, 0),  UCB, sigma^2
  value/…/vs-reference-gp   the same against the independent mpmath GP (mc/ref/gpref_c.py)
  value/…/continuity        across z = -3: difference of the two sides = difference of the reference
  optvalue/…                opt_func_gradient()[0] = opt_func()
  optgrad/…/richardson      opt_func_gradient()[1] = Richardson derivative of the REAL opt_func
  optgrad/…/reference       … = gradient of the reference objective
Unsteered ladder (same evaluator, keys .../unsteered,<band>/...): trend data, LinearMean extrapolating the trend / ConstantMean next to accurately
measured points, a ladder of query points; z, mu/sigma, variance/prior variance are what the model gives; the visited bands
(-inf,-6], (-6,-3], (-3,0], (0,3], (3,6], (6,inf) are tagged, the four middle ones must be visited.
Part C (history search, evaluator "history"): breadth-first enumeration of ALL sequences of length <= depth over
{propose(bfgs), propose(diffev), add_evaluation(x, y[, err])} on fresh GpOptimiser objects (every history is rebuilt
and replayed from the constructor), random starts scripted on the alphabet {0, 1/2, 1-}.  Invariants in every state, and in
every state the acquisition held by the optimiser is probed (__call__, opt_func, opt_func_gradient) at a fixed menu of points -
including points probed in earlier states, the point just added and the point about to be added - against a FRESH GpOptimiser
built directly from the accumulated data and the same hyper-parameters:
  history/probe/<Acq>/<method>/differs-from-fresh-optimiser-on-the-same-data     the acquisition depends on the history
  history/probe/<Acq>/opt_func_gradient/gradient-differs-from-fresh-optimiser-on-the-same-data
  history/probe/<Acq>/optvalue-differs-from-opt_func                             value part of opt_func_gradient != opt_func
The search bounds are handed over in every container form (list of tuples, list of lists, float (d,2) ndarray, int (d,2) ndarray); after every call
  history/caller-array-modified/ctor-bounds/given-as:<form>    the caller's bounds object is no longer what was passed (bytes / shape / dtype)
  history/propose-<route>/outside-bounds                       a proposal outside the ORIGINAL box (kept by the harness, not read back from the objects)
Repeated measurements (same evaluator, alphabet {A, Ri, Rl, Pb}): every history of length <= 3 that contains an add_evaluation at a location that
is ALREADY a row of the data (Ri: an initial point; Rl: the point added last) with y = incumbent + 1/4, with / without errors, in every input form:
the evaluation must become one more row of x / y / y_err of the optimiser AND of its re-fitted model and be the new incumbent, like any other add
  history/data/<x|y|gp.x|gp.y>-is-not-initial-data-plus-added-evaluations/after-add-at-a-location-already-in-the-data
  history/data/y_err-is-not-initial-plus-added-errors/after-add-at-a-location-already-in-the-data
  history/incumbent/mu_max-is-not-max-y/after-add-at-a-location-already-in-the-data         (and all probes / invariants above in those states)
Numeric dtypes / containers (evaluator "dtype"): initial x and y in {float64, int64, float32, int32, list of ints, list of floats} x three consecutive adds
rotating through six forms of the added location and six of the added value (python float / int, numpy integer scalars, 0-d arrays, float32 arrays, lists):
  dtype/data/<x|y|gp.x|gp.y>-row-is-not-the-evaluation-that-was-added/initial-<x|y>-<integer|float32|float64>     the new row is not the float64 value of what was added
  dtype/data/<...>-is-not-initial-data-plus-added-evaluations/...        earlier rows changed          dtype/incumbent/mu_max-is-not-max-y/initial-y-<class>
  dtype/predict/<mean|variance>-differs-from-fresh-optimiser-on-the-same-data-as-float64/...        dtype/caller-array-modified/<site>       dtype/.../raises:<Type>
"""
import copy
import itertools

import numpy as np

from mc.core import HarnessError, LibFailure, fail, lib

LEVEL = "exploration"

EPS = float(np.finfo(float).eps)
C_EPS = 64.0
C_JIT = 2e-12
LEVELS = 4
ONE_MINUS = float(np.nextafter(1.0, 0.0))

BASE = [
    [0.0, 0.5],
    [1.0, 0.25],
    [2.5, 1.75],
    [0.75, 2.0],
    [1.75, 1.0],
    [3.0, 2.75],
]
HP = {"unit": (1.0, [1.0, 1.0]), "aniso": (2.5, [0.5, 2.0]), "short": (0.6, [0.3, 0.4])}
ZS_QUICK = [-40.0, -10.0, -3.5, -3.0 - 1e-9, -3.0, -3.0 + 1e-9, -1.0, 0.0, 2.0, 8.0]
ZS_MORE = [-25.0, -5.0, -3.0 - 1e-12, -3.0 + 1e-12, -2.9, 0.5, 4.0]
MEANS = {"C": "ConstantMean", "L": "LinearMean"}
ACQ = {"EI": "ExpectedImprovement", "UCB": "UpperConfidenceBound", "MV": "MaxVariance"}
MEAN_LIN = [0.8, -0.45]


# ====================================================================================== part D: the lattice
LADDER_LIN = [0.8, 0.15]
LADDER_STEPS = [-3.0, -1.0, -0.25, 0.125, 0.25, 0.5, 0.75, 1.0, 1.5, 2.0, 3.0, 4.0, 6.0]
LADDER_NEAR = [0.05, 0.2, -0.3]
Z_EDGES = [-6.0, -3.0, 0.0, 3.0, 6.0]
V_EDGES = [1e-6, 1e-3, 0.5]
MIDDLE_BANDS = ["(-6,-3]", "(-3,0]", "(0,3]", "(3,6]"]


def band_of(v, edges):
    """label of the half-open band (e_k, e_k+1] that v lies in"""
    lo = "-inf"
    for e in edges:
        if v <= e:
            return "(%s,%g]" % (lo, e)
        lo = "%g" % e
    return "(%s,inf)" % lo


def branch_of(z):
    if abs(z + 3.0) <= 1e-6:
        return "switch"
    return "far-tail" if z < -3.0 else "ordinary"


def gp_data(case):
    d, n, g = case["d"], case["n"], case["design"]
    rows = list(range(len(BASE)))
    rows = (rows[g:] + rows[:g])[:n]
    cols = [0, 1][:d] if g % 2 == 0 else [1, 0][:d]
    off = 0.125 * case.get("shift", 0)
    X = np.array([[BASE[r][c] + off for c in cols] for r in rows])
    y = np.array([sum(np.sin(1.3 * BASE[r][c] + i) for i, c in enumerate(cols)) + 0.3 * BASE[r][cols[0]] for r in rows])
    yerr = None if case["noise"] == "none" else (np.full(n, 0.1) if case["noise"] == "uniform" else np.array([[0.02, 0.3, 0.1, 0.05, 0.2, 0.01][j % 6] for j in range(n)]))
    if case.get("ladder"):
        # unsteered configurations: data on a rising trend along the first coordinate (the largest value sits at the edge of the
        # data), "accurate" = measured to 1e-3 (2e-3 for every other point)
        y = 0.3 + 0.9 * X[:, 0] + 0.12 * np.sin(2.1 * X[:, 0] + g) + (0.2 * X[:, 1] if d == 2 else 0.0)
        if case["noise"] == "accurate":
            yerr = np.array([1e-3 * (1 + j % 2) for j in range(n)])
    # units: the same problem with x measured in units of 1/xscale and y (and its errors) in units of 1/yscale
    xs, ys = float(case.get("xscale", 1.0)), float(case.get("yscale", 1.0))
    return X * xs, y * ys, (None if yerr is None else yerr * ys)


def mp_prop(F, inp, deltas, d):
    """First-order propagation, done numerically in mpmath: |F(inp + delta_j e_j) - F(inp)| summed over the inputs."""
    v0, g0 = F(inp)
    tv, tg = 0.0, [0.0] * d
    for name, dl in deltas.items():
        items = list(enumerate(dl)) if isinstance(dl, list) else [(None, dl)]
        for i, di in items:
            if di == 0:
                continue
            p = dict(inp)
            if i is None:
                p[name] = p[name] + di
            else:
                lst = list(p[name])
                lst[i] = lst[i] + di
                p[name] = lst
            v, g = F(p)
            tv += abs(float(v - v0))
            tg = [a + abs(float(b - c)) for a, b, c in zip(tg, g, g0)]
    return v0, g0, tv, tg


def ev_acq(case):
    import mpmath as mp

    import inference.gp as G
    from inference.gp import acquisition as ACQM
    from mc.ref import gpref_c as R

    d, n, kind, mk = case["d"], case["n"], case["acq"], case["mean"]
    aname, mname = ACQ[kind], MEANS[mk]
    X, y, yerr = gp_data(case)
    xs, ys = float(case.get("xscale", 1.0)), float(case.get("yscale", 1.0))
    a, ls = HP[case["hp"]]
    a, ls = a * ys * float(case.get("amp", 1.0)), [l * xs for l in ls[:d]]  # amplitude in units of y, length-scales in units of x
    kt = [float(np.log(a))] + [float(np.log(l)) for l in ls]
    lin = [v * ys / xs for v in MEAN_LIN[:d]] if mk == "L" else []
    c04 = 0.4 * ys  # the constant of the mean function where it is not used for steering
    ladder = case.get("ladder")
    if ladder:
        # the mean function follows the trend of the data (LinearMean: slope 0.8 of the data's 0.9) or sits at their average (ConstantMean)
        lin = [v * ys / xs for v in LADDER_LIN[:d]] if mk == "L" else []
        c04 = float((0.3 * ys + 0.8 * ys / xs * X[:, 0].mean()) if mk == "L" else y.mean())
    ymax0 = float(np.max(y))
    kappa = case.get("kappa", 2.0)
    ref = R.RefGP(X.tolist(), y.tolist(), ["SE"], kt, mk, [0.0] + lin, None if yerr is None else yerr.tolist())
    if not ref.ok:
        return {"fails": [], "n": 0, "skipped": {"cond(G) > 1e10": 1}}
    cond = ref.cond
    W = R.richardson_weights(LEVELS)
    fails, seen, tags, slack, skipped, nev = [], {}, set(), {}, {}, 0

    units = "" if xs == 1.0 and ys == 1.0 else "/units-far-from-1"
    sname = "" if not units else "scaled/"

    def bad(key, what, **kw):
        key = key + units
        seen[key] = seen.get(key, 0) + 1
        if seen[key] == 1:
            fails.append(fail(key, what + (f" [x in units of {1 / xs:g}, y in units of {1 / ys:g}]" if units else ""), xscale=xs, yscale=ys, **kw))

    def cmp(name, key, got, want, tol, what, **kw):
        name = sname + name
        err = abs(float(got) - float(want))
        r = err / tol if tol > 0 else (0.0 if err == 0 else float("inf"))
        if not (r <= slack.get(name, -1.0)):
            slack[name] = r if r == r else float("inf")
        if not (err <= tol):
            bad(key, f"{what}: got {float(got)!r}, expected {float(want)!r}, |diff| {err:.3e} > tol {tol:.3e}", observed=float(got), expected=float(want), tol=tol, **kw)

    lsa = np.array(ls)
    sgn = np.array([1.0, -1.0])[:d]
    queries = [
        ("between", 0.5 * (X[0] + X[1]) + 0.0625 * lsa),
        ("centroid", X.mean(axis=0) + 0.15 * lsa * sgn),
        ("outside", X.max(axis=0) + 0.75 * lsa),
    ]
    zs = case["zs"] if kind == "EI" else [None]
    if ladder:
        # NO steering: a ladder of query points along the first coordinate, from 3 length-scales below the data to 6 above, through
        # the data (other coordinates at the centroid); the improvement z-score is whatever the model gives there
        zs = [None]
        top = int(np.argmax(y))
        queries = []
        for t in LADDER_STEPS:
            q = X.mean(axis=0).copy()
            q[0] = (X[:, 0].max() + t * lsa[0]) if t > 0 else (X[:, 0].min() + t * lsa[0])
            queries.append(("ladder%+g" % t, q))
        for t in LADDER_NEAR:  # next to the accurately measured / largest datum
            queries.append(("top%+g" % t, X[top] + t * lsa * np.array([1.0, 0.5])[:d]))
    for qname, q in queries:
        ql = q.tolist()
        # Steering z = (mu(q) - max(y)) / sigma(q) to a target through the PUBLIC inputs.  sigma(q) depends on neither
        # knob.  Knob 1: the constant of the mean function (mu(q) is affine in it with slope 1 - w.1).  Where that slope
        # is tiny (q inside the data hull) knob 2: the value of the data point with the smallest weight is raised to be
        # the incumbent maximum (mu(q) is affine in it with slope w_j), which reaches every z below a ceiling.
        ref.set_y(y.tolist())
        ref.set_mean(mk, [0.0] + lin)
        mu0 = ref.mu(ql)
        ref.set_mean(mk, [ys] + lin)
        mu1 = ref.mu(ql)
        sig_ref = mp.sqrt(ref.var(ql))
        den = (mu1 - mu0) / R.M(ys)
        wts = ref.weights(ql)
        j = min(range(n), key=lambda a_: abs(wts[a_]))
        othermax = max(float(v) for k_, v in enumerate(y) if k_ != j)
        yz = y.copy()
        yz[j] = 0.0
        ref.set_y(yz.tolist())
        ref.set_mean(mk, [c04] + lin)
        mua = ref.mu(ql)
        per_z = {}
        for zt in zs:
            yq = y
            if zt is None:
                t0, knob = c04, "none"
            elif abs(den) >= 0.05:
                t0, knob = float((R.M(ymax0) + R.M(zt) * sig_ref - mu0) / den), "mean-constant"
            else:
                yj = float((mua - R.M(zt) * sig_ref) / (1 - wts[j]))
                if not yj >= othermax:
                    skipped["z target above the ceiling reachable inside the data hull"] = skipped.get("z target above the ceiling reachable inside the data hull", 0) + 1
                    continue
                yq = y.copy()
                yq[j] = yj
                t0, knob = c04, "incumbent-data-value"
            ymax = float(np.max(yq))
            mt = [t0] + lin
            ref.set_y(yq.tolist())
            ref.set_mean(mk, mt)
            P = ref.predict(ql)
            S = P["scales"]
            if float(P["var"]) <= 4 * (C_EPS * EPS + C_JIT) * cond * S["var"]:
                skipped["predictive variance below resolution"] = skipped.get("predictive variance below resolution", 0) + 1
                continue
            theta = np.array(mt + kt)
            kw = {} if yerr is None else {"y_err": yerr.copy()}
            with lib("GpRegressor"):
                gp = G.GpRegressor(X.copy(), yq.copy(), hyperpars=theta, kernel=G.SquaredExponential, mean=getattr(G, mname), **kw)
            acq = getattr(ACQM, aname)(kappa) if kind == "UCB" else getattr(ACQM, aname)()
            with lib("update_gp"):
                acq.update_gp(gp)
            xq = q.reshape(1, d).copy()
            with lib("gp.__call__"):
                mur, sgr = gp(xq)
            mur, sgr = float(np.asarray(mur).reshape(-1)[0]), float(np.asarray(sgr).reshape(-1)[0])
            with lib(f"{aname}.__call__"):
                val_call = float(np.asarray(acq(xq)).reshape(-1)[0])
            with lib(f"{aname}.opt_func"):
                val_opt = float(np.asarray(acq.opt_func(xq)).reshape(-1)[0])
            with lib(f"{aname}.opt_func_gradient"):
                og = acq.opt_func_gradient(xq)
            nev += 4
            if not (isinstance(og, tuple) and len(og) == 2):
                bad(f"optgrad/{aname}/return-form", f"opt_func_gradient returned {type(og).__name__}")
                continue
            ogv = np.asarray(og[0], float).reshape(-1)
            ogg = np.asarray(og[1], float).reshape(-1)
            if ogv.size != 1 or ogg.size != d:
                bad(f"optgrad/{aname}/shape", f"opt_func_gradient returned value of size {ogv.size} and gradient of size {ogg.size} in {d} dimensions")
                continue

            # ---------------- the reference objective F(mu, var, dmu, dvar) -> (value, gradient), to be MINIMISED
            if kind == "EI":
                F = lambda p: R.neg_ln_ei_and_grad(p["mu"], p["var"], p["dmu"], p["dvar"], R.M(ymax))[:2]
            elif kind == "UCB":
                F = lambda p: R.neg_ucb_and_grad(p["mu"], p["var"], p["dmu"], p["dvar"], R.M(kappa))
            else:
                F = lambda p: R.neg_var_and_grad(p["var"], p["dvar"])
            inp = {"mu": P["mu"], "var": P["var"], "dmu": list(P["dmu"]), "dvar": list(P["dvar"])}
            sig = float(mp.sqrt(P["var"]))

            def internal(pin):
                """rounding of the acquisition formula itself (value, per-component gradient)"""
                mu_, var_ = float(pin["mu"]), float(pin["var"])
                s_ = float(np.sqrt(var_))
                dmu_ = [abs(float(v)) for v in pin["dmu"]]
                dsg_ = [abs(float(v)) / (2 * s_) for v in pin["dvar"]]
                if kind == "EI":
                    t = R.ei_terms(pin["mu"], mp.sqrt(pin["var"]), R.M(ymax))
                    z, g, lnei = float(t["z"]), float(t["g"]), float(t["ln_ei"])
                    hz, pdf, cdf = float(t["h"]), float(t["pdf"]), float(t["cdf"])
                    # far-tail form: 1 + Z*R cancels to 1/z^2 (relative error ~ z^2 eps), ln pdf ~ z^2 eps / 2
                    cz_tail = 2 * z * z + 2
                    gt_tail = [(1 + z * z) * (b / s_ + g * (a_ + abs(z) * b) / s_) for a_, b in zip(dmu_, dsg_)]
                    # documented form sigma (z F(z) + P(z)), F = (1 + erf(z/sqrt 2))/2 evaluated in doubles: F carries an
                    # ABSOLUTE error ~ eps, so z F + P = h(z) carries (|z| + 1) eps and EI a relative error (|z| + 1) eps / h(z)
                    # The statement does not pin where the implementation switches form: the documented form is an
                    # acceptable evaluation wherever its own rounding error stays below 1e-10 relative (z >~ -3.2);
                    # below that only the far-tail form's accuracy is accepted.
                    cz, gt = cz_tail, gt_tail
                    if hz > 0:
                        cz_ord = (abs(z) + 1) / hz + 2
                        if 16 * EPS * cz_ord <= 1e-10:
                            gt_ord = [cz_ord * (pdf * b + cdf * a_) / (s_ * hz) + a_ / (s_ * hz) for a_, b in zip(dmu_, dsg_)]
                            cz, gt = max(cz_tail, cz_ord), [max(u, v) for u, v in zip(gt_tail, gt_ord)]
                    iv = 16 * EPS * (cz + abs(np.log(s_)) + abs(lnei))
                    ig = [32 * EPS * v for v in gt]
                elif kind == "UCB":
                    iv = 8 * EPS * (abs(mu_) + kappa * s_)
                    ig = [16 * EPS * (a_ + kappa * b) for a_, b in zip(dmu_, dsg_)]
                else:
                    iv = 8 * EPS * var_
                    ig = [16 * EPS * abs(float(v)) for v in pin["dvar"]]
                return iv, ig

            # ---------------- (A) the definition on the REAL predictive distribution
            inpA = {"mu": R.M(mur), "var": R.M(sgr) ** 2, "dmu": inp["dmu"], "dvar": inp["dvar"]}
            dA = {"mu": 2 * EPS * (abs(mur) + abs(ymax)), "var": 4 * EPS * sgr**2}
            vA, _, tvA, _ = mp_prop(F, inpA, dA, d)
            ivA, _ = internal(inpA)
            tolA = 2 * tvA + ivA
            # ---------------- (B) the independent GP
            tr = lambda s_: (C_EPS * EPS + C_JIT) * cond * s_
            dB = {"mu": tr(S["mu"]), "var": tr(S["var"]), "dmu": [tr(s_) for s_ in S["dmu"]], "dvar": [tr(s_) for s_ in S["dvar"]]}
            vB, gB, tvB, tgB = mp_prop(F, inp, dB, d)
            ivB, igB = internal(inp)
            tolB = 2 * tvB + ivB
            tolGB = [2 * a_ + b for a_, b in zip(tgB, igB)]
            # rounding-only error level of the real objective as a function of x (no regularisation term: it is smooth in x)
            dN = {"mu": C_EPS * EPS * cond * S["mu"], "var": C_EPS * EPS * cond * S["var"]}
            _, _, tvN, _ = mp_prop(F, inp, dN, d)
            noise = 2 * tvN + ivB

            zref = float((P["mu"] - R.M(ymax)) / mp.sqrt(P["var"]))
            br = branch_of(zt) if (kind == "EI" and not ladder) else "all"
            if ladder:
                # own keys; the band is the lattice label of the situation, taken from the reference model
                if kind == "EI":
                    band = "z=" + band_of(zref, Z_EDGES)
                elif kind == "UCB":
                    band = "mu/sigma=" + band_of(float(P["mu"] / mp.sqrt(P["var"])), Z_EDGES)
                else:
                    band = "var/amplitude^2=" + band_of(float(P["var"]) / a**2, V_EDGES)
                br = "unsteered," + band
                tags.add(f"unsteered,{kind},{band}")
            info = dict(query=qname, point=ql, z=zref, mean_constant=t0, y=yq.tolist(), steering=knob)
            pre = f"value/{aname}/{br}"
            # opt_func is the objective that is minimised: -ln EI, -UCB, -variance
            cmp(f"value/{kind}/opt_func/vs-definition", f"{pre}/opt_func-vs-definition", val_opt, vA, tolA, f"{aname}.opt_func vs definition on the real predictive (mu, sigma)", **info)
            cmp(f"value/{kind}/opt_func/vs-reference-gp", f"{pre}/opt_func-vs-reference-gp", val_opt, vB, tolB, f"{aname}.opt_func vs reference GP", **info)
            cmp(f"optvalue/{kind}", f"optvalue/{aname}/{br}/differs-from-opt_func", ogv[0], val_opt, tolA, f"{aname}.opt_func_gradient value vs opt_func", **info)
            # __call__ is the acquisition itself
            if kind == "EI":
                if float(vA) > 700.0:  # EI < e^-700: legitimately underflows
                    tags.add("EI underflow region (ln EI < -700): __call__ compared with an absolute floor")
                    if not (0.0 <= val_call <= 1e-300):
                        bad(f"{pre}/call-not-tiny-in-underflow-region", f"EI = {val_call!r} where ln EI = {-float(vA):.2f}", **info)
                elif not val_call > 0:
                    bad(f"{pre}/call-not-positive", f"EI = {val_call!r} where ln EI = {-float(vA):.3f}", **info)
                else:
                    cmp(f"value/{kind}/call/vs-definition", f"{pre}/call-vs-definition", np.log(val_call), -vA, tolA, "ln ExpectedImprovement.__call__ vs ln E[max(f - ymax, 0)] on the real predictive", **info)
                    cmp(f"value/{kind}/call/vs-reference-gp", f"{pre}/call-vs-reference-gp", np.log(val_call), -vB, tolB, "ln ExpectedImprovement.__call__ vs reference GP", **info)
                per_z[zt] = (val_opt, vA, tolA, zref)
            else:
                cmp(f"value/{kind}/call/vs-definition", f"{pre}/call-vs-definition", val_call, -vA, tolA, f"{aname}.__call__ vs definition on the real predictive", **info)
                cmp(f"value/{kind}/call/vs-reference-gp", f"{pre}/call-vs-reference-gp", val_call, -vB, tolB, f"{aname}.__call__ vs reference GP", **info)

            # ---------------- gradient: Richardson on the REAL opt_func, and the reference gradient
            for i in range(d):
                def fref(x):
                    Px = {"mu": ref.mu(x), "var": ref.var(x), "dmu": [mp.mpf(0)] * d, "dvar": [mp.mpf(0)] * d}
                    return F(Px)[0]

                # step: the largest of l/8, l/32, l/128, l/512 whose truncation error (same stencil on the reference
                # objective, mpmath) is below 1e-9 of the gradient scale; -ln EI varies on the scale of the distance to
                # the nearest noise-free data point, not of the length-scale
                gscale = max(abs(float(v)) for v in gB)
                vfloor = 4 * (C_EPS * EPS + C_JIT) * cond * S["var"]
                trunc = None
                for div in (8.0, 32.0, 128.0, 512.0):
                    st = R.stencil(ql, i, ls[i] / div, LEVELS)
                    dn = [s_[2] for s_ in st]
                    if min(min(float(ref.var(xp)), float(ref.var(xm))) for xp, xm, _ in st) <= vfloor:
                        trunc = None  # the stencil touches a noise-free data point, where sigma = 0 and the objective is singular
                        continue
                    rr = R.richardson([(fref(xp), fref(xm)) for xp, xm, _ in st], [R.M(v) for v in dn])
                    trunc = abs(float(rr - gB[i]))
                    if trunc <= 1e-9 * gscale:
                        break
                if trunc is None:
                    skipped["difference stencil touches a noise-free data point (reference oracle only)"] = skipped.get("difference stencil touches a noise-free data point (reference oracle only)", 0) + 1
                    cmp(f"optgrad/{kind}/reference", f"optgrad/{aname}/{mname}/{br}/reference", ogg[i], gB[i], tolGB[i], f"{aname}.opt_func_gradient vs gradient of the reference objective", component=i, **info)
                    continue
                vals = []
                for xp, xm, _ in st:
                    with lib(f"{aname}.opt_func"):
                        fp = float(np.asarray(acq.opt_func(np.array(xp).reshape(1, d))).reshape(-1)[0])
                        fm = float(np.asarray(acq.opt_func(np.array(xm).reshape(1, d))).reshape(-1)[0])
                    nev += 2
                    vals.append((fp, fm))
                fd = R.richardson(vals, dn)
                amp = sum(abs(w) * 2.0 / abs(h) for w, h in zip(W, dn))
                tol_fd = 2 * trunc + amp * noise + C_EPS * EPS * abs(float(gB[i]))
                kw = dict(component=i, fd_step_divisor=div, **info)
                cmp(f"optgrad/{kind}/richardson", f"optgrad/{aname}/{mname}/{br}/richardson", ogg[i], fd, tol_fd, f"{aname}.opt_func_gradient vs Richardson derivative of opt_func", **kw)
                cmp(f"optgrad/{kind}/reference", f"optgrad/{aname}/{mname}/{br}/reference", ogg[i], gB[i], tolGB[i], f"{aname}.opt_func_gradient vs gradient of the reference objective", **kw)
                if gscale > 0:
                    slack[f"info/fd-tolerance-over-gradient-scale/{kind}"] = max(slack.get(f"info/fd-tolerance-over-gradient-scale/{kind}", 0.0), tol_fd / gscale)
            tags.add(f"{kind},d={d},n={n},hp={case['hp']},noise={case['noise']},mean={mk},q={qname},z={zt if zt is None else round(zt, 3)},steer={knob}" + (f",kappa={kappa}" if kind == "UCB" else "") + (f",x*{xs:g},y*{ys:g}" if units else ""))
            if kind == "EI":
                tags.add(f"EI branch by reference z: {'far-tail' if zref < -3 else 'ordinary'}")

        # ---------------- continuity across the switch at z = -3 (both sides against the reference difference)
        if kind == "EI":
            for dz in (1e-9, 1e-12):
                lo, hi = per_z.get(-3.0 - dz), per_z.get(-3.0 + dz)
                if lo is None or hi is None:
                    continue
                if not (lo[3] < -3.0 < hi[3]):
                    raise HarnessError(f"z targets did not straddle the switch: {lo[3]!r}, {hi[3]!r}")
                got = lo[0] - hi[0]
                want = float(lo[1] - hi[1])
                cmp("value/EI/continuity", f"value/{aname}/switch/continuity-across-z=-3", got, want, lo[2] + hi[2],
                    f"-ln EI just below minus just above the branch switch (z = -3 -/+ {dz})", query=qname, point=ql)
                tags.add(f"continuity dz={dz}")
    for k, c in seen.items():
        for f in fails:
            if f["key"] == k:
                f["occurrences_in_case"] = c
    return {"fails": fails[:30], "n": nev, "tags": tags, "slack": slack, "skipped": skipped, "sample": {"case": {k: v for k, v in case.items() if k != "zs"}, "cond": cond}}


def ev_selftest(case):
    """Reference closed form of EI against the definition by quadrature, for every z of the lattice."""
    import mpmath as mp

    from mc.ref import gpref_c as R

    worst = 0.0
    for z in case["zs"]:
        for sig, ymax in ((0.7, 1.2), (3e-3, -40.0)):
            mu = ymax + z * sig
            a = mp.exp(R.ei_terms(mu, sig, ymax)["ln_ei"])
            b = R.ei_by_quadrature(mu, sig, ymax)
            worst = max(worst, float(abs(a - b) / b))
    if not worst < 1e-30:
        raise HarnessError(f"EI closed form vs quadrature of the definition: {worst}")
    return {"fails": [], "n": 0, "tags": {"reference-selftest"}, "slack": {"selftest/ei-closed-form-vs-quadrature": worst / 1e-30}}


# ====================================================================================== part C: histories
ACTIONS = ["Pb", "Pd", "A"]
# repeated measurements: add_evaluation at a location that is ALREADY a row of the data, with y above the incumbent
#   Ri  at an initial data point (rotating through them)      Rl  at the point added last (before any add: at the last initial point)
REPEATS = ["Ri", "Rl"]
ACTIONS_REPEAT = ["A", "Ri", "Rl", "Pb"]


class Script:
    """Scripted replacement for ``numpy.random.random`` on the alphabet {0, 1/2, 1-}."""

    LETTERS = {"0": [0.0], "half": [0.5], "1-": [ONE_MINUS], "cycle": [0.0, 0.5, ONE_MINUS]}

    def __init__(self, kind):
        self.letters = self.LETTERS[kind]
        self.calls = 0

    def __call__(self, size=None):
        n = 1 if size is None else int(np.prod(size))
        vals = [self.letters[(self.calls + j) % len(self.letters)] for j in range(n)]
        self.calls += 1
        return vals[0] if size is None else np.array(vals).reshape(size)


def objective(x):
    x = np.asarray(x, float).reshape(-1)
    return float(np.sin(1.3 * x[0]) + 0.3 * x[0] + (np.cos(0.9 * x[-1]) if x.size > 1 else 0.0))


# Designs whose incumbent maximum sits ON THE BOUNDARY of the search box and is a row of the data: the objective rises monotonically
# towards one corner of the box (sign pattern `corner`), or - "edge", d = 2 - towards one face with an interior ridge along it.
BOUNDARY_LAYOUTS = ("corner", "edge")


def boundary_objective(cfg):
    sg = [1.0 if c else -1.0 for c in cfg["corner"]]

    def f(x):
        x = np.asarray(x, float).reshape(-1)
        v = 0.5 * sg[0] * x[0]
        if x.size > 1:
            v += (0.3125 * sg[1] * x[1]) if cfg["layout"] == "corner" else -0.25 * (x[1] - 1.5) ** 2
        return float(v)

    return f


def objective_of(cfg):
    return boundary_objective(cfg) if cfg["layout"] in BOUNDARY_LAYOUTS else objective


def initial_data(cfg):
    d = cfg["d"]
    if cfg["layout"] in BOUNDARY_LAYOUTS:
        # the box first; then the initial design with the boundary point (a corner, or the ridge point of a face) as its LAST row
        bounds = [(-1.0, 4.0)] * d if cfg.get("bform", "tuples") == "iarray" else [(-0.25, 3.25)] * d
        bpt = [bounds[i][1 if cfg["corner"][i] else 0] for i in range(d)]
        if cfg["layout"] == "edge":
            if d != 2:
                raise HarnessError("the edge layout needs d = 2")
            bpt[1] = 1.5
        rows = ([[0.25], [1.0], [2.5]] if d == 1 else [[0.25, 0.5], [1.0, 2.25], [2.5, 1.0], [0.75, 2.75]]) + [bpt]
        f = boundary_objective(cfg)
        x = np.array(rows)
        y = np.array([f(r) for r in rows])
        if int(np.argmax(y)) != len(rows) - 1 or np.sum(y == y.max()) != 1:
            raise HarnessError(f"boundary design: the incumbent is not the boundary point: {y.tolist()}")
        e = np.array([0.05, 0.1, 0.02, 0.07, 0.03][: len(rows)]) if cfg["yerr"] else None
        return rows, x, y, e, bounds
    if d == 1:
        xv = [0.25, 1.0, 2.5]
        rows = [[v] for v in xv]
        form = cfg["xform"]
        if form == "col":
            x = np.array(rows)
        elif form == "flat":
            x = np.array(xv)
        elif form == "strided":
            big = np.zeros(2 * len(xv))
            big[::2] = xv
            x = big[::2]
        else:
            raise HarnessError(form)
    else:
        rows = [[0.25, 0.5], [1.0, 2.25], [2.5, 1.0], [0.75, 2.75]]
        if cfg["xform"] == "own":
            x = np.array(rows)
        elif cfg["xform"] == "view":
            big = np.zeros((len(rows) + 2, 2))
            big[1:-1] = rows
            x = big[1:-1]
        else:
            raise HarnessError(cfg["xform"])
    y = np.array([objective(r) for r in rows])
    e = np.array([0.05, 0.1, 0.02, 0.07][: len(rows)]) if cfg["yerr"] else None
    if cfg.get("bform", "tuples") == "iarray":  # an integer array can only hold an integer box
        lo = 1.0 if cfg["layout"] == "outside" else -1.0
        bounds = [(lo, 4.0)] + ([(-1.0, 4.0)] if d == 2 else [])
    else:
        lo = 0.5 if cfg["layout"] == "outside" else -0.25
        bounds = [(lo, 3.25)] + ([(-0.25, 3.25)] if d == 2 else [])
    return rows, x, y, e, bounds


BOUND_FORMS = ["tuples", "lists", "farray", "iarray"]


def bounds_object(bounds, form):
    """the search box in one of the container forms a caller may hold it in (a new object every call)"""
    if form == "tuples":
        return [tuple(b) for b in bounds]
    if form == "lists":
        return [list(b) for b in bounds]
    if form == "farray":
        return np.array(bounds, dtype=float)
    if form == "iarray":
        a = np.array(bounds)
        if not np.all(a == np.round(a)):
            raise HarnessError("integer bounds form needs an integer box")
        return a.astype(np.int64)
    raise HarnessError(form)


MENU = {1: [[1.75], [0.625], [2.875], [1.25]], 2: [[1.75, 1.0], [0.625, 2.375], [2.875, 0.375], [1.25, 1.5]]}
# probes of the acquisition in every reached state: besides the roles listed in run_one_history.probes one point that is never added
PROBE_FIXED = {1: [2.2], 2: [2.2, 0.3]}
PROBE_RTOL = 1e-12
# floor of the scale a deviation is measured against: the objective -ln EI and mean + kappa sigma are sums of O(1) terms (absolute
# rounding ~ eps x 1 where they cancel); EI itself and the variance are products (purely relative)
PROBE_FLOOR = {
    "EI": {"__call__": 0.0, "opt_func": 1.0, "opt_func_gradient": 1.0},
    "UCB": {"__call__": 1.0, "opt_func": 1.0, "opt_func_gradient": 1.0},
    "MV": {"__call__": 0.0, "opt_func": 0.0, "opt_func_gradient": 0.0},
}


def rel_dev(a, b, floor):
    """|a - b| relative to max(|a|, |b|, floor); identical values (including identical non-finite ones) deviate by 0"""
    if a == b or (a != a and b != b):
        return 0.0
    if not (np.isfinite(a) and np.isfinite(b)):
        return float("inf")
    return abs(a - b) / max(abs(a), abs(b), floor)


def point_form(d, p, k):
    """the point p (list of d floats) in the k-th input form of add_evaluation"""
    if d == 1:
        return [float(p[0]), np.array(p, dtype=float), np.array([p], dtype=float), np.array(float(p[0]))][k % 4]
    return [np.array(p, dtype=float), [float(v) for v in p], np.array([p], dtype=float), np.array(p, dtype=float)][k % 4]


def menu_point(d, k):
    """k-th menu point in the k-th input form."""
    p = MENU[d][k % len(MENU[d])]
    if d == 1:
        return [float(p[0]), np.array(p), np.array([p]), np.array(p[0])][k % 4]
    return [np.array(p), list(p), np.array([p]), np.array(p)][k % 4]


class Snap:
    """Byte- and shape-snapshots of every object handed to (or received from and handed back to) the library."""

    def __init__(self):
        self.items = []

    def add(self, name, obj):
        if isinstance(obj, np.ndarray):
            self.items.append((name, obj, obj.shape, obj.dtype, obj.tobytes()))
        else:
            self.items.append((name, obj, None, None, copy.deepcopy(obj)))

    def changed(self):
        out = []
        for name, obj, shape, dtype, data in self.items:
            if isinstance(obj, np.ndarray):
                if obj.shape != shape:
                    out.append((name, f"shape {shape} -> {obj.shape}"))
                elif obj.dtype != dtype or obj.tobytes() != data:
                    out.append((name, "contents changed"))
            else:
                same = obj == data
                if isinstance(same, np.ndarray):
                    same = bool(same.all())
                if not same:
                    out.append((name, "contents changed"))
        return out


def run_one_history(cfg, hist, bad, counters):
    """Build fresh objects, replay ``hist``; invariants after every call.  Returns the canonical key of the final
    state, or None when a library call raised (terminal)."""
    import inference.gp as G
    from inference.gp import acquisition as ACQM
    from inference.gp import regression as REGM

    d = cfg["d"]
    aname = ACQ[cfg["acq"]]
    script = Script(cfg["script"])
    for mod in (ACQM, REGM):
        if not hasattr(mod, "random"):
            raise HarnessError(f"seam missing: {mod.__name__}.random (the module no longer draws its starts through a module-global 'random')")
    saved = (ACQM.random, REGM.random)
    ACQM.random = script
    REGM.random = script
    try:
        rows, x0, y0, e0, bounds = initial_data(cfg)
        bform = cfg.get("bform", "tuples")
        bounds_in = bounds_object(bounds, bform)  # the caller's own object: watched (bytes, shape, dtype / deep equality) after every call
        snap = Snap()
        snap.add("ctor-x", x0)
        snap.add("ctor-y", y0)
        if e0 is not None:
            snap.add("ctor-y_err", e0)
        snap.add("ctor-bounds", bounds_in)
        acq = getattr(ACQM, aname)(cfg["kappa"]) if cfg["acq"] == "UCB" else getattr(ACQM, aname)()
        kw = {} if e0 is None else {"y_err": e0}
        np.random.seed(777)
        try:
            with lib("GpOptimiser"):
                opt = G.GpOptimiser(x0, y0, bounds=bounds_in, acquisition=acq, **kw)
        except LibFailure as e:
            bad(f"history/GpOptimiser-constructor/x-{cfg['xform']}/raises:{e.exc_type}", f"constructor raised on in-domain data: {e}", history=[], traceback=e.tb)
            return None
        counters["n"] += 1
        mx, my, me = [list(r) for r in rows], list(y0.tolist()), (None if e0 is None else list(e0.tolist()))
        lo = np.array([b[0] for b in bounds])
        hi = np.array([b[1] for b in bounds])

        def invariants(where, done):
            for name, how in snap.changed():
                site = name.split("#")[0]
                if site == "ctor-bounds":
                    now = np.asarray(bounds_in, dtype=float).tolist()
                    bad(f"history/caller-array-modified/ctor-bounds/given-as:{bform}", f"after {where}: the search bounds object the caller passed ({bform}) was modified ({how}): it now holds {now}, "
                        f"the caller wrote {[list(b) for b in bounds]}", history=done, d=d, bounds_form=bform)
                    continue
                bad(f"history/caller-array-modified/{site}", f"after {where}: the caller's {name} was modified ({how})", history=done, d=d)
            X, Y = np.array(mx), np.array(my)
            ok = True
            rep = "/after-add-at-a-location-already-in-the-data" if (done and done[-1] in REPEATS) else ""
            for nm, arr, want in (("x", getattr(opt, "x", None), X), ("y", getattr(opt, "y", None), Y), ("gp.x", getattr(opt.gp, "x", None), X), ("gp.y", getattr(opt.gp, "y", None), Y)):
                if arr is None or np.asarray(arr).shape != want.shape or not np.array_equal(np.asarray(arr), want):
                    bad(f"history/data/{nm}-is-not-initial-data-plus-added-evaluations{rep}", f"after {where}: {nm} = {None if arr is None else np.asarray(arr).tolist()} but the data are {want.tolist()}", history=done)
                    ok = False
            if me is not None:
                E = np.array(me)
                if not np.array_equal(np.asarray(opt.y_err), E):
                    bad(f"history/data/y_err-is-not-initial-plus-added-errors{rep}", f"after {where}: y_err = {np.asarray(opt.y_err).tolist()} vs {E.tolist()}", history=done)
                sig = getattr(opt.gp, "sig", None)
                if sig is not None and np.asarray(sig).shape == (len(me), len(me)):
                    if not np.allclose(np.diag(np.asarray(sig)), E**2, rtol=4 * EPS, atol=0):
                        bad("history/data/model-noise-is-not-the-given-errors", f"after {where}: diag(gp.sig) = {np.diag(sig).tolist()} vs {(E**2).tolist()}", history=done)
            a = opt.acquisition
            if getattr(a, "gp", None) is not opt.gp:
                bad("history/model/acquisition-not-on-the-current-model", f"after {where}: acquisition.gp is not the optimiser's current gp", history=done)
            mm = getattr(a, "mu_max", None)
            if mm is None or float(mm) != max(my):
                bad(f"history/incumbent/mu_max-is-not-max-y{rep}", f"after {where}: acquisition.mu_max = {mm!r}, max(y) = {max(my)!r}", history=done)
            return ok

        carry = {"pt": None}

        def probes(where, done, just_added, pending_now, nadd_now):
            """The acquisition held by the optimiser, evaluated at the probe menu in THIS state, against a fresh optimiser
            built directly from the accumulated data with the same hyper-parameters (history-independence)."""
            theta = getattr(opt.gp, "hyperpars", None)
            if theta is None:
                raise HarnessError("seam missing: GpRegressor.hyperpars (the hyper-parameters of the optimiser's current model)")
            facq = getattr(ACQM, aname)(cfg["kappa"]) if cfg["acq"] == "UCB" else getattr(ACQM, aname)()
            fkw = {} if me is None else {"y_err": np.array(me)}
            calls_before = script.calls
            try:
                with lib("GpOptimiser-fresh"):
                    fopt = G.GpOptimiser(np.array(mx), np.array(my), bounds=list(bounds), acquisition=facq, hyperpars=np.array(theta, dtype=float).copy(), **fkw)
            except LibFailure as e:
                bad(f"history/probe/fresh-GpOptimiser-from-accumulated-data/raises:{e.exc_type}", f"after {where}: a fresh GpOptimiser on the accumulated data with the current hyper-parameters raised: {e}", history=done, traceback=e.tb)
                return
            finally:
                script.calls = calls_before  # the reference object must not consume the scripted starts of the history
            fa = fopt.acquisition
            # ---- the probe menu of this state (roles; the same point may appear under several roles: repeated evaluation)
            plist = []
            if carry["pt"] is not None:
                plist.append(("last-point-probed-in-the-previous-state", carry["pt"]))
            if just_added is not None:
                plist.append(("point-just-added", list(just_added)))
            plist.append(("menu-point-0", list(MENU[d][0])))
            plist.append(("initial-data-point", list(rows[1])))
            plist.append(("menu-point-1", list(MENU[d][1])))
            plist.append(("off-menu-point", list(PROBE_FIXED[d])))
            if just_added is not None:
                plist.append(("point-just-added-again", list(just_added)))
            if pending_now is not None:
                plist.append(("pending-proposal", np.asarray(pending_now, float).reshape(-1).tolist()))
            else:
                plist.append(("next-menu-point-to-be-added", list(MENU[d][nadd_now % len(MENU[d])])))
            meths = ["__call__", "opt_func", "opt_func_gradient"]
            for j, (role, pt) in enumerate(plist):
                # input forms of the callers inside the library: (1, d) from add_evaluation, (d,) from the optimisers
                mk = (lambda: np.array(pt, dtype=float).reshape(1, d)) if (j + len(done)) % 2 == 0 else (lambda: np.array(pt, dtype=float))
                got, want = {}, {}
                rot = (j + len(done) + nadd_now) % 3
                for m in meths[rot:] + meths[:rot]:
                    try:
                        with lib(f"{aname}.{m}"):
                            got[m] = getattr(opt.acquisition, m)(mk())
                        with lib(f"{aname}.{m}-fresh"):
                            want[m] = getattr(fa, m)(mk())
                    except LibFailure as e:
                        bad(f"history/probe/{aname}/{m}/raises:{e.exc_type}", f"after {where}: {m} at probe '{role}' {pt} raised: {e}", history=done, traceback=e.tb)
                        return
                    counters["n"] += 1
                vals = {}
                for m in meths:
                    g_, w_ = got[m], want[m]
                    if m == "opt_func_gradient":
                        if not (isinstance(g_, tuple) and len(g_) == 2 and isinstance(w_, tuple) and len(w_) == 2):
                            bad(f"history/probe/{aname}/opt_func_gradient/return-form", f"after {where}: opt_func_gradient returned {type(g_).__name__}", history=done)
                            continue
                        gg, wg = np.asarray(g_[1], float).reshape(-1), np.asarray(w_[1], float).reshape(-1)
                        g_, w_ = g_[0], w_[0]
                    gv, wv = np.asarray(g_, float).reshape(-1), np.asarray(w_, float).reshape(-1)
                    if gv.size != 1 or wv.size != 1:
                        bad(f"history/probe/{aname}/{m}/not-a-scalar", f"after {where}: {m} returned {gv.size} values at one point", history=done)
                        continue
                    gv, wv = float(gv[0]), float(wv[0])
                    vals[m] = gv
                    r = rel_dev(gv, wv, PROBE_FLOOR[cfg["acq"]][m])
                    counters["slack"][f"history/probe-vs-fresh/{cfg['acq']}/{m}"] = max(counters["slack"].get(f"history/probe-vs-fresh/{cfg['acq']}/{m}", 0.0), r / PROBE_RTOL)
                    if not r <= PROBE_RTOL:
                        bad(f"history/probe/{aname}/{m}/differs-from-fresh-optimiser-on-the-same-data",
                            f"after {where}: {m} of the optimiser's acquisition at probe '{role}' {pt} = {gv!r}, a fresh GpOptimiser built from the same {len(my)} data points and "
                            f"hyper-parameters {np.asarray(theta, float).tolist()} gives {wv!r} (relative deviation {r:.3e})", history=done, probe=pt, role=role, observed=gv, expected=wv)
                    if m == "opt_func_gradient":
                        if gg.shape != wg.shape:
                            bad(f"history/probe/{aname}/opt_func_gradient/gradient-shape", f"after {where}: gradient of size {gg.size}, fresh {wg.size}", history=done)
                        else:
                            rg = max(rel_dev(float(a_), float(b_), float(np.abs(wg).max()) if np.all(np.isfinite(wg)) else 0.0) for a_, b_ in zip(gg, wg))
                            counters["slack"][f"history/probe-vs-fresh/{cfg['acq']}/gradient"] = max(counters["slack"].get(f"history/probe-vs-fresh/{cfg['acq']}/gradient", 0.0), rg / PROBE_RTOL)
                            if not rg <= PROBE_RTOL:
                                bad(f"history/probe/{aname}/opt_func_gradient/gradient-differs-from-fresh-optimiser-on-the-same-data",
                                    f"after {where}: gradient at probe '{role}' {pt} = {gg.tolist()}, fresh optimiser on the same data {wg.tolist()}", history=done, probe=pt, role=role)
                if "opt_func" in vals and "opt_func_gradient" in vals:
                    r = rel_dev(vals["opt_func_gradient"], vals["opt_func"], PROBE_FLOOR[cfg["acq"]]["opt_func"])
                    counters["slack"][f"history/optvalue-vs-opt_func/{cfg['acq']}"] = max(counters["slack"].get(f"history/optvalue-vs-opt_func/{cfg['acq']}", 0.0), r / PROBE_RTOL)
                    if not r <= PROBE_RTOL:
                        bad(f"history/probe/{aname}/optvalue-differs-from-opt_func", f"after {where}: at probe '{role}' {pt} opt_func_gradient()[0] = {vals['opt_func_gradient']!r} but opt_func() = {vals['opt_func']!r}",
                            history=done, probe=pt, role=role)
                if all(np.isfinite(v) for v in vals.values()) and len(vals) == 3:
                    counters["tags"].add(f"probe {role} d={d} acq={cfg['acq']} after-{'add' if just_added is not None else ('ctor' if not done else 'propose')} adds-so-far={min(nadd_now, 2)}")
                else:
                    counters["skipped"]["probe with a non-finite acquisition value (compared for identity only)"] = counters["skipped"].get("probe with a non-finite acquisition value (compared for identity only)", 0) + 1
                carry["pt"] = list(pt)
            counters["probed_states"] += 1

        if invariants("constructor", []):
            probes("constructor", [], None, None, 0)
        pending = None
        nadd = 0
        for pos, act in enumerate(hist):
            done = hist[: pos + 1]
            if act in ("Pb", "Pd"):
                which = "bfgs" if act == "Pb" else "diffev"
                np.random.seed(4242 + pos)  # scipy's differential_evolution draws from numpy's global state
                try:
                    with lib(f"propose_evaluation-{which}"):
                        p = opt.propose_evaluation(optimizer=which)
                except LibFailure as e:
                    bad(f"history/propose-{which}/raises:{e.exc_type}", f"propose_evaluation('{which}') raised after {done}: {e}", history=done, traceback=e.tb)
                    return None
                counters["n"] += 1
                pa = np.asarray(p, float)
                if pa.size != d or (d > 1 and pa.shape != (d,)) or (d == 1 and pa.ndim > 1):
                    bad(f"history/propose-{which}/shape", f"proposal has shape {pa.shape} in {d} dimensions", history=done)
                else:
                    pv = pa.reshape(-1)
                    if not np.all(np.isfinite(pv)):
                        bad(f"history/propose-{which}/not-finite", f"proposal {pv.tolist()}", history=done)
                    elif not (np.all(pv >= lo) and np.all(pv <= hi)):
                        sfx = "/incumbent-on-the-boundary-and-in-the-data" if cfg["layout"] in BOUNDARY_LAYOUTS else ""
                        bad(f"history/propose-{which}/outside-bounds{sfx}", f"proposal {pv.tolist()} outside {bounds}" + (f" (design with the incumbent maximum at the {cfg['layout']} point {rows[-1]} of the box, "
                            f"which is a row of the data; acquisition {aname}{'' if cfg['kappa'] is None else ' kappa=' + str(cfg['kappa'])})" if sfx else ""), history=done, proposal=pv.tolist(),
                            excess=np.maximum(np.maximum(lo - pv, pv - hi), 0.0).tolist())
                    counters["tags"].add(f"proposal {which} d={d} {'on-boundary' if (np.any(pv == lo) or np.any(pv == hi)) else 'interior'}")
                    streak = 1
                    while streak <= pos and hist[pos - streak] in ("Pb", "Pd"):
                        streak += 1
                    counters["tags"].add(f"proposal {which} d={d} bounds-given-as={bform} proposals-in-a-row={streak}")
                    if cfg["layout"] in BOUNDARY_LAYOUTS and np.all(np.isfinite(pv)):
                        onb = bool(np.any(pv <= lo) or np.any(pv >= hi))
                        near = min(float(np.max(np.abs(pv - np.array(r_)) / (hi - lo))) for r_ in mx)
                        where_ = "at-a-row-of-the-data" if near <= 1e-6 else "new-location"
                        counters["tags"].add(f"boundary-design {cfg['layout']} d={d} acq={cfg['acq']}{'' if cfg['kappa'] is None else ',kappa=' + format(cfg['kappa'], 'g')} {which}: proposal "
                                             f"{'on-boundary' if onb else 'interior'} {where_} proposals-in-a-row={streak}")
                pending = p
                if isinstance(p, np.ndarray):
                    snap.add(f"proposal-returned-by-propose_evaluation#{pos}", p)
            else:
                if act in REPEATS:
                    # a repeated measurement at a location that is ALREADY in the data, with a value above the incumbent: like any other
                    # evaluation it becomes one more row of the data and the new incumbent (a pending proposal stays pending)
                    if act == "Ri" or nadd == 0:
                        pt_, src = rows[(nadd + (len(rows) - 1 if act == "Rl" else 0)) % len(rows)], "repeat-of-initial-point"
                    else:
                        pt_, src = mx[-1], "repeat-of-last-added-point"
                    nx = point_form(d, pt_, nadd + pos)
                elif pending is not None:
                    nx, src = pending, "proposal"
                    pending = None
                else:
                    nx, src = menu_point(d, nadd), f"menu-form-{nadd % 4}"
                vals = np.asarray(nx, float).reshape(-1).tolist()
                yv = (max(my) + 0.25) if act in REPEATS else objective_of(cfg)(vals)
                ny = [yv, np.array(yv), np.array([yv]), np.float64(yv)][nadd % 4]
                ev = 0.05 + 0.01 * nadd
                ne = [ev, np.array([ev]), np.array(ev), ev][nadd % 4]
                if isinstance(nx, (np.ndarray, list)):
                    snap.add(f"add-new_x#{pos}", nx)
                if isinstance(ny, np.ndarray):
                    snap.add(f"add-new_y#{pos}", ny)
                if me is not None and isinstance(ne, np.ndarray):
                    snap.add(f"add-new_y_err#{pos}", ne)
                try:
                    with lib("add_evaluation"):
                        if me is None:
                            opt.add_evaluation(nx, ny)
                        else:
                            opt.add_evaluation(nx, ny, ne)
                except LibFailure as e:
                    bad(f"history/add_evaluation/{src.split('-')[0]}/raises:{e.exc_type}", f"add_evaluation raised after {done} (new_x {vals}, {src}): {e}", history=done, traceback=e.tb)
                    return None
                counters["n"] += 1
                mx.append(vals)
                my.append(yv)
                if me is not None:
                    me.append(ev)
                nadd += 1
                dup = any(vals == r for r in mx[:-1])
                if act in REPEATS:
                    if not dup:
                        raise HarnessError(f"repeat action {act} did not produce a location that is already in the data: {vals} vs {mx[:-1]}")
                    counters["tags"].add(f"add {src} d={d} yerr={me is not None} acq={cfg['acq']} form={type(nx).__name__}{np.shape(nx)} pending-proposal={pending is not None} rows-at-this-location={sum(vals == r for r in mx)}")
                else:
                    counters["tags"].add(f"add {src.split('-')[0]} d={d} yerr={me is not None}{' duplicate-point' if dup else ''} new-max={yv == max(my)}")
            if invariants(f"{'.'.join(done)}", done):
                probes(".".join(done), done, vals if act not in ("Pb", "Pd") else None, pending, nadd)
        counters["random_calls"] += script.calls
        pend = None if pending is None else np.asarray(pending, float).tobytes()
        return (np.array(mx).tobytes(), np.array(my).tobytes(), None if me is None else np.array(me).tobytes(), pend)
    finally:
        ACQM.random, REGM.random = saved


def ev_history(case):
    cfg = case
    depth = cfg["depth"]
    fails, seen = [], {}

    def bad(key, what, **kw):
        seen[key] = seen.get(key, 0) + 1
        if seen[key] == 1:
            fails.append(fail(key, what, **kw))

    counters = {"n": 0, "tags": set(), "random_calls": 0, "slack": {}, "skipped": {}, "probed_states": 0}
    states = set()
    transitions = 0
    first = cfg["first"]
    alphabet = cfg.get("alphabet", ACTIONS)
    must = cfg.get("must_contain")
    frontier = [[]] if first is None else [[first]]
    if first is None:
        k = run_one_history(cfg, [], bad, counters)
        if k is not None:
            states.add(k)
        frontier = []
    level = 1
    while frontier and level <= depth:
        nxt = []
        for h in frontier:
            if must and not any(a in must for a in h):
                # covered by the main enumeration; only its extensions that contain one of the required actions are run here
                if len(h) < depth:
                    nxt += [h + [a] for a in alphabet]
                continue
            k = run_one_history(cfg, h, bad, counters)
            transitions += 1
            if k is None:
                continue
            states.add(k)
            if len(h) < depth:
                nxt += [h + [a] for a in alphabet]
        frontier = nxt
        level += 1
    tags = set(counters["tags"])
    if counters["random_calls"]:
        tags.add(f"scripted starts used: script={cfg['script']}")
    tags.add(f"history-config d={cfg['d']} acq={cfg['acq']} yerr={cfg['yerr']} layout={cfg['layout']} x={cfg['xform']} bounds={cfg.get('bform', 'tuples')} script={cfg['script']}")
    for k, c in seen.items():
        for f in fails:
            if f["key"] == k:
                f["occurrences_in_case"] = c
    return {"fails": fails[:30], "n": counters["n"], "tags": tags, "states": len(states), "transitions": transitions, "traces": transitions,
            "slack": counters["slack"], "skipped": counters["skipped"], "probed_states": counters["probed_states"],
            "sample": {"config": cfg, "states": len(states), "transitions": transitions, "scripted_random_calls": counters["random_calls"], "states_probed": counters["probed_states"]}}


# ====================================================================================== part E: numeric dtypes / containers
# Initial data and added evaluations in every numeric dtype / container form.  The property has no clause about dtypes: the evaluation
# that was ADDED (its value, as a float64) is the new row of the data, the incumbent is max of all y given, and the model is the model of
# those data.
DT_XKINDS = ["f64", "i64", "f32", "list-int", "i32", "list-float"]
DT_YKINDS = ["f64", "i64", "list-int", "f32", "i32", "list-float"]
DT_ROWS = {
    ("float", 1): [[0.25], [1.0], [2.5]],
    ("int", 1): [[0], [1], [3]],
    ("float", 2): [[0.25, 0.5], [1.0, 2.25], [2.5, 1.0], [0.75, 2.75]],
    ("int", 2): [[0, 1], [1, 3], [3, 1], [2, 0]],
}
DT_YINT = [1, 4, 2, 3]
DT_CLASS = {"f64": "float64", "list-float": "float64", "f32": "float32", "i64": "integer", "i32": "integer", "list-int": "integer"}
DT_BOUNDS = (-2.0, 6.0)
DT_NADD_FORMS = 6
DT_PROBES = {1: [[1.3], [3.6]], 2: [[1.3, 1.9], [3.6, 0.4]]}


def dt_initial(d, xkind, ykind, flat):
    """(rows as float64 lists, x object handed to the constructor, y values as floats, y object)"""
    isint = xkind in ("i64", "i32", "list-int")
    rows = DT_ROWS[("int" if isint else "float", d)]
    shaped = [r[0] for r in rows] if (d == 1 and flat) else [list(r) for r in rows]
    if xkind.startswith("list"):
        x = shaped
    else:
        x = np.array(shaped, dtype={"f64": np.float64, "f32": np.float32, "i64": np.int64, "i32": np.int32}[xkind])
    yint = ykind in ("i64", "i32", "list-int")
    yv = DT_YINT[: len(rows)] if yint else [objective(r) for r in rows]
    if ykind == "f32":
        yv = [float(np.float32(v)) for v in yv]  # the caller's float32 numbers ARE the data
    if ykind.startswith("list"):
        y = list(yv)
    else:
        y = np.array(yv, dtype={"f64": np.float64, "f32": np.float32, "i64": np.int64, "i32": np.int32}[ykind])
    return [[float(v) for v in r] for r in rows], x, [float(v) for v in yv], y


def dt_add_x(d, k):
    """k-th form of an added location: (description, object)"""
    k %= DT_NADD_FORMS
    if d == 1:
        return [
            ("python-float", 1.7),
            ("python-int", 2),
            ("int64-array(d,)", np.array([4], dtype=np.int64)),
            ("float32-array(1,d)", np.array([[0.625]], dtype=np.float32)),
            ("list-of-ints", [-1]),
            ("int32-0d-array", np.array(5, dtype=np.int32)),
        ][k]
    return [
        ("float64-array(d,)", np.array([1.7, 0.3])),
        ("list-of-ints", [2, 2]),
        ("int64-array(d,)", np.array([4, 1], dtype=np.int64)),
        ("float32-array(1,d)", np.array([[0.625, 2.375]], dtype=np.float32)),
        ("list-int-and-float", [-1, 0.5]),
        ("int32-array(1,d)", np.array([[5, 3]], dtype=np.int32)),
    ][k]


def dt_add_y(k):
    k %= DT_NADD_FORMS
    return [
        ("python-float", 6.8),
        ("python-int", 3),
        ("int64-scalar", np.int64(7)),
        ("int32-0d-array", np.array(2, dtype=np.int32)),
        ("float32-array(1,)", np.array([0.3], dtype=np.float32)),
        ("float32-scalar", np.float32(7.3)),
    ][k]


def ev_dtype(case):
    import inference.gp as G
    from inference.gp import acquisition as ACQM
    from inference.gp import regression as REGM

    d, xkind, ykind, r, yrot = case["d"], case["xkind"], case["ykind"], case["rot"], case["yrot"]
    aname = ACQ[case["acq"]]
    fails, seen, tags, slack, nev, skipped = [], {}, set(), {}, 0, {}

    def bad(key, what, **kw):
        seen[key] = seen.get(key, 0) + 1
        if seen[key] == 1:
            fails.append(fail(key, what, case=case, **kw))

    script = Script(case["script"])
    for mod in (ACQM, REGM):
        if not hasattr(mod, "random"):
            raise HarnessError(f"seam missing: {mod.__name__}.random")
    saved = (ACQM.random, REGM.random)
    ACQM.random = script
    REGM.random = script
    try:
        rows, x0, yv0, y0 = dt_initial(d, xkind, ykind, flat=bool(r % 2))
        e0 = np.array([0.05, 0.1, 0.02, 0.07][: len(rows)]) if case["yerr"] else None
        bounds = [DT_BOUNDS] * d
        snap = Snap()
        snap.add("ctor-x", x0)
        snap.add("ctor-y", y0)
        if e0 is not None:
            snap.add("ctor-y_err", e0)
        mk_acq = lambda: getattr(ACQM, aname)(case["kappa"]) if case["acq"] == "UCB" else getattr(ACQM, aname)()
        kw = {} if e0 is None else {"y_err": e0}
        np.random.seed(777)
        try:
            with lib("GpOptimiser"):
                opt = G.GpOptimiser(x0, y0, bounds=[tuple(b) for b in bounds], acquisition=mk_acq(), **kw)
        except LibFailure as e:
            bad(f"dtype/GpOptimiser-constructor/x-{xkind}/y-{ykind}/raises:{e.exc_type}", f"constructor raised on initial data x {xkind}, y {ykind}: {e}", traceback=e.tb)
            return {"fails": fails, "n": nev, "tags": tags}
        nev += 1
        mx, my, me = [list(v) for v in rows], list(yv0), (None if e0 is None else list(e0.tolist()))

        def state(where, added):
            """data rows / incumbent / caller arrays / predictions in the current state; ``added`` = (x form, y form) of the last add"""
            nonlocal nev
            # one key per kind of defect: the class the initial data were stored in (integer / float32 / float64); forms go in the details
            sfx, sfy = f"initial-x-{DT_CLASS[xkind]}", f"initial-y-{DT_CLASS[ykind]}"
            for name, how in snap.changed():
                bad(f"dtype/caller-array-modified/{name.split('#')[0]}", f"after {where}: the caller's {name} was modified ({how})")
            X, Y = np.array(mx, dtype=float), np.array(my, dtype=float)
            ok = True
            for nm, arr, want, sf in (("x", getattr(opt, "x", None), X, sfx), ("y", getattr(opt, "y", None), Y, sfy), ("gp.x", getattr(opt.gp, "x", None), X, sfx), ("gp.y", getattr(opt.gp, "y", None), Y, sfy)):
                try:
                    got = None if arr is None else np.asarray(arr, dtype=float)
                except (TypeError, ValueError):
                    got = None
                if got is None or got.shape != want.shape:
                    bad(f"dtype/data/{nm}-has-not-the-shape-of-initial-data-plus-added-evaluations/{sf}", f"after {where}: {nm} = {arr!r}; the data are {want.tolist()}")
                    ok = False
                elif not np.array_equal(got, want):
                    which = "row-is-not-the-evaluation-that-was-added" if (added is not None and np.array_equal(got[:-1], want[:-1])) else "is-not-initial-data-plus-added-evaluations"
                    bad(f"dtype/data/{nm}-{which}/{sf}", f"after {where}: {nm} (dtype {getattr(arr, 'dtype', None)}) = {got.tolist()} but the evaluations given are {want.tolist()} (as float64)",
                        stored_dtype=str(getattr(arr, "dtype", None)))
                    ok = False
            if me is not None:
                E = np.array(me)
                ge = getattr(opt, "y_err", None)
                if ge is None or np.shape(ge) != E.shape or not np.array_equal(np.asarray(ge, dtype=float), E):
                    bad("dtype/data/y_err-is-not-initial-plus-added-errors", f"after {where}: y_err = {ge!r} vs {E.tolist()}")
            mm = getattr(opt.acquisition, "mu_max", None)
            if mm is None or float(mm) != max(my):
                bad(f"dtype/incumbent/mu_max-is-not-max-y/{sfy}", f"after {where}: acquisition.mu_max = {mm!r}, max of the y values given = {max(my)!r} (y given: {my})")
            if getattr(opt.acquisition, "gp", None) is not opt.gp:
                bad("dtype/model/acquisition-not-on-the-current-model", f"after {where}: acquisition.gp is not the optimiser's current gp")
            if not ok:
                return False
            # ---- predictions: those of a fresh optimiser given the SAME data as float64 arrays and the same hyper-parameters
            theta = getattr(opt.gp, "hyperpars", None)
            if theta is None:
                raise HarnessError("seam missing: GpRegressor.hyperpars")
            theta = np.array(theta, dtype=float)
            calls_before = script.calls
            try:
                with lib("GpOptimiser-fresh-float64"):
                    fopt = G.GpOptimiser(X.copy(), Y.copy(), bounds=[tuple(b) for b in bounds], acquisition=mk_acq(), hyperpars=theta.copy(), **({} if me is None else {"y_err": np.array(me)}))
            except LibFailure as e:
                bad(f"dtype/fresh-GpOptimiser-from-float64-data/raises:{e.exc_type}", f"after {where}: {e}", traceback=e.tb)
                return
            finally:
                script.calls = calls_before
            # derived tolerance: both are solves with the same covariance matrix K(theta); rounding enters as eps * cond(K)
            amp, ls = float(np.exp(theta[-d - 1])), np.exp(theta[-d:])
            D2 = (((X[:, None, :] - X[None, :, :]) / ls) ** 2).sum(axis=2)
            K = amp**2 * np.exp(-0.5 * D2) + (np.diag(np.array(me) ** 2) if me is not None else 0.0)
            cond = float(np.linalg.cond(K + 1e-12 * amp**2 * np.eye(len(my)))) if np.all(np.isfinite(K)) else float("inf")
            yscale = max(abs(v) for v in my) + abs(float(theta[0]))
            tol_mu = C_EPS * EPS * cond * yscale
            tol_var = C_EPS * EPS * cond * amp**2
            if not (tol_mu <= 1e-3 * yscale and tol_var <= 1e-3 * amp**2):
                # the re-fit selected hyper-parameters with an ill-conditioned covariance: the prediction comparison says nothing there (the data oracles do)
                skipped["prediction comparison with a tolerance above 1e-3 of the scale (ill-conditioned re-fit)"] = skipped.get("prediction comparison with a tolerance above 1e-3 of the scale (ill-conditioned re-fit)", 0) + 1
            else:
                skipped["_compared"] = skipped.get("_compared", 0) + 1
            pts = [list(p) for p in DT_PROBES[d]] + [list(mx[-1])] + [[0.5 * (a + b) for a, b in zip(mx[-1], mx[0])]]
            for j, pt in enumerate(pts):
                q = np.array(pt, dtype=float).reshape(1, d)
                try:
                    with lib("gp.__call__"):
                        m1, s1 = opt.gp(q.copy())
                    with lib("gp.__call__-fresh"):
                        m2, s2 = fopt.gp(q.copy())
                except LibFailure as e:
                    bad(f"dtype/predict/raises:{e.exc_type}", f"after {where}: prediction at {pt} raised: {e}", traceback=e.tb)
                    return
                nev += 2
                m1, s1, m2, s2 = (float(np.asarray(v, dtype=float).reshape(-1)[0]) for v in (m1, s1, m2, s2))
                em, ev_ = abs(m1 - m2), abs(s1**2 - s2**2)
                slack["dtype/predict/mean-vs-fresh-float64"] = max(slack.get("dtype/predict/mean-vs-fresh-float64", 0.0), em / tol_mu if np.isfinite(tol_mu) else 0.0)
                slack["dtype/predict/variance-vs-fresh-float64"] = max(slack.get("dtype/predict/variance-vs-fresh-float64", 0.0), ev_ / tol_var if np.isfinite(tol_var) else 0.0)
                if not em <= tol_mu:
                    bad(f"dtype/predict/mean-differs-from-fresh-optimiser-on-the-same-data-as-float64/{sfx}/{sfy}",
                        f"after {where}: mean at {pt} = {m1!r}; a fresh GpOptimiser given the same {len(my)} evaluations as float64 arrays and the same hyper-parameters gives {m2!r} (tol {tol_mu:.3e})", probe=pt)
                if not ev_ <= tol_var:
                    bad(f"dtype/predict/variance-differs-from-fresh-optimiser-on-the-same-data-as-float64/{sfx}/{sfy}",
                        f"after {where}: sigma at {pt} = {s1!r}; fresh optimiser on the same data as float64: {s2!r} (variance tol {tol_var:.3e})", probe=pt)

        state("constructor", None)
        tags.add(f"dtype initial d={d} x={xkind}{'(flat)' if d == 1 and r % 2 else ''} y={ykind} yerr={case['yerr']} acq={case['acq']}")
        for k in range(case["nadd"]):
            xdesc, nx = dt_add_x(d, r + k)
            ydesc, ny = dt_add_y(r + k + yrot)
            ev = 0.05 + 0.01 * k
            ne = [ev, np.array([ev]), np.array(ev)][k % 3]
            xval = [float(v) for v in np.asarray(nx, dtype=np.float64).reshape(-1)]
            yval = float(np.asarray(ny, dtype=np.float64).reshape(-1)[0])
            if isinstance(nx, (np.ndarray, list)):
                snap.add(f"add-new_x#{k}", nx)
            if isinstance(ny, np.ndarray):
                snap.add(f"add-new_y#{k}", ny)
            where = f"add #{k + 1} of x = {xval} given as {xdesc}, y = {yval!r} given as {ydesc} (initial x {xkind}, initial y {ykind})"
            try:
                with lib("add_evaluation"):
                    if me is None:
                        opt.add_evaluation(nx, ny)
                    else:
                        opt.add_evaluation(nx, ny, ne)
            except LibFailure as e:
                bad(f"dtype/add_evaluation/x-as-{xdesc}/y-as-{ydesc}/raises:{e.exc_type}", f"{where} raised: {e}", traceback=e.tb)
                break
            nev += 1
            mx.append(xval)
            my.append(yval)
            if me is not None:
                me.append(ev)
            if state(where, (xdesc, ydesc)) is False:
                break  # the data are already wrong: later states would repeat the same finding
            tags.add(f"dtype add d={d} stored-x={xkind} new-x={xdesc} {'non-integer' if any(v != round(v) for v in xval) else 'integer-valued'}")
            tags.add(f"dtype add stored-y={ykind} new-y={ydesc} {'non-integer' if yval != round(yval) else 'integer-valued'} new-max={yval == max(my)}")
    finally:
        ACQM.random, REGM.random = saved
    for k_, c in seen.items():
        for f in fails:
            if f["key"] == k_:
                f["occurrences_in_case"] = c
    ncmp = skipped.pop("_compared", 0)
    if ncmp:
        tags.add(f"dtype predictions compared with a fresh float64 optimiser d={d} x={DT_CLASS[xkind]} y={DT_CLASS[ykind]}")
    return {"fails": fails[:30], "n": nev, "tags": tags, "slack": slack, "skipped": skipped, "sample": {"case": case, "states_with_predictions_compared": ncmp}}


EVALUATORS = {"acq": ev_acq, "selftest": ev_selftest, "history": ev_history, "dtype": ev_dtype}


def run(ck):
    # import the heavy modules before the worker pool is forked
    import inference.gp  # noqa: F401
    import inference.gp.acquisition  # noqa: F401
    import mc.ref.gpref_c  # noqa: F401

    seed, quick = ck.seed, ck.quick
    zs = ZS_QUICK if quick else sorted(ZS_QUICK + ZS_MORE)
    ck.run_cases("selftest", [{"zs": zs}], parallel=False)
    # ---------------------------------------------------------------- part D
    cases = []
    hps = ["unit", "aniso", "short"]
    noises = ["uniform", "none"] if quick else ["uniform", "none", "mixed"]
    designs = [seed % 4] if quick else [0, 1, 2, 3]
    for d, n, hp, noise, mean, g in itertools.product([1, 2], [3, 6], hps, noises, ["C", "L"], designs):
        base = {"d": d, "n": n, "design": g, "hp": hp, "noise": noise, "mean": mean, "shift": seed % 4}
        cases.append(dict(base, acq="EI", zs=zs))
        for kappa in (2.0, 0.0):
            cases.append(dict(base, acq="UCB", kappa=kappa))
        cases.append(dict(base, acq="MV"))
    ck.run_cases("acq", cases, chunk=1)
    # ---- unsteered configurations: the z-score (EI), mu/sigma (UCB) and variance / prior variance (MV) are whatever the model gives along a
    # ladder of query points; data on a trend, LinearMean extrapolating it beyond the data / ConstantMean next to accurately measured points
    lcases = []
    for d in (1, 2):
        ns = [4, 6] if (d == 1 or not quick) else [4]
        lhps = ["unit", "short"] if quick else hps
        lnoise = ["uniform", "accurate"] if quick else ["uniform", "accurate", "none"]
        amps = [0.25, 0.1] if quick else [0.25, 0.1, 0.03]
        for n, hp, noise, mean, amp, g in itertools.product(ns, lhps, lnoise, ["L", "C"], amps, designs):
            base = {"d": d, "n": n, "design": g, "hp": hp, "noise": noise, "mean": mean, "shift": seed % 4, "ladder": "trend", "amp": amp}
            lcases.append(dict(base, acq="EI", zs=[]))
            for kappa in ((2.0,) if quick else (2.0, 0.0)):
                lcases.append(dict(base, acq="UCB", kappa=kappa))
            lcases.append(dict(base, acq="MV"))
    lres = ck.run_cases("acq", lcases, chunk=1)
    visited = {}
    for r in lres:
        for t in r.get("tags", ()):
            if isinstance(t, str) and t.startswith("unsteered,"):
                _, k_, b_ = t.split(",", 2)
                visited.setdefault(k_, set()).add(b_)
    missing = [b for b in MIDDLE_BANDS if "z=" + b not in visited.get("EI", set())]
    if missing and not any(r["fails"] for r in lres):
        raise HarnessError(f"unsteered ladder is vacuous: no query point with the improvement z-score in {missing}")
    ck.extra["unsteered_ladder"] = {"cases": len(lcases), "library_calls": int(sum(r.get("n", 0) for r in lres)), "bands_visited": {k_: sorted(v) for k_, v in visited.items()}}
    # ---- units far from 1: the same lattice with x (data, query points, length-scales, bounds of nothing: no optimiser here) multiplied by xscale and
    # y, y_err, amplitude and mean-function parameters by yscale; every oracle of part D (all tolerances are relative to the problem's own scales)
    scales = [(1.0, 1e-9), (1.0, 1e-6), (1.0, 1e6), (1e-6, 1.0), (1e6, 1.0)] + ([] if quick else [(1e-6, 1e6), (1e6, 1e-6), (1e6, 1e-9)])
    scases = []
    for si, (xsc, ysc) in enumerate(scales):
        for d in (1, 2):
            if quick:
                k_ = si + d + seed
                combos = [(3 if k_ % 2 else 6, hps[k_ % 3], ["uniform", "none"][(k_ // 2) % 2], "CL"[(k_ // 3) % 2], seed % 4)]
            else:
                combos = list(itertools.product([3, 6], hps, ["uniform", "none"], ["C", "L"], [seed % 4]))
            for n, hp, noise, mean, g in combos:
                base = {"d": d, "n": n, "design": g, "hp": hp, "noise": noise, "mean": mean, "shift": seed % 4, "xscale": xsc, "yscale": ysc}
                scases.append(dict(base, acq="EI", zs=zs))
                for kappa in (2.0, 0.0):
                    scases.append(dict(base, acq="UCB", kappa=kappa))
                scases.append(dict(base, acq="MV"))
    sres = ck.run_cases("acq", scases, chunk=1)
    ck.extra["units_far_from_1"] = {"scales_x_y": [list(t) for t in scales], "cases": len(scases), "library_calls": int(sum(r.get("n", 0) for r in sres))}
    # ---------------------------------------------------------------- part C
    scripts = ["0", "half", "1-", "cycle"]
    if quick:
        scripts = [scripts[seed % 4], scripts[(seed + 2) % 4]]
    hcases = []
    for d in (1, 2):
        if quick:
            # a slice of the configuration product (thorough runs the whole product); every history of length <= 3 in each
            combos = {
                1: [(scripts[0], False, "inside", "col"), (scripts[1], True, "outside", "flat"), (scripts[0], True, "inside", "strided")],
                2: [(scripts[0], False, "inside", "own"), (scripts[1], True, "outside", "view")],
            }[d]
            acqs = (("EI", None), ("UCB", 2.0), ("MV", None))
        else:
            xforms = ("col", "flat", "strided") if d == 1 else ("own", "view")
            combos = [(sc, ye, la, xf) for sc in scripts for ye in (False, True) for la in ("inside", "outside") for xf in xforms]
            acqs = (("EI", None), ("UCB", 2.0), ("MV", None), ("UCB", 0.0))
        for ai, (acq, kappa) in enumerate(acqs):
            for ci, (script, yerr, layout, xform) in enumerate(combos):
                # container form of the search bounds: rotated over the configuration product so that every form meets every
                # d, acquisition, optimiser route and input form (a Latin-square slice; the seed shifts it)
                bform = BOUND_FORMS[(ai + ci + seed) % len(BOUND_FORMS)]
                for first in [None] + ACTIONS:
                    hcases.append({"d": d, "acq": acq, "kappa": kappa, "script": script, "yerr": yerr, "layout": layout, "xform": xform, "bform": bform, "first": first, "depth": 3})
    res = ck.run_cases("history", hcases, chunk=1)
    # ---- boundary designs: the incumbent maximum is a corner of the box / the ridge point of a face AND a row of the data; every history of length <= 3
    bcases = []
    bacq = (("UCB", 0.0), ("EI", None), ("MV", None), ("UCB", 2.0))
    for d in (1, 2):
        xforms = ("col", "flat", "strided") if d == 1 else ("own", "view")
        lay = [("corner", list(c)) for c in itertools.product((1, 0), repeat=d)] + ([("edge", [1, 1]), ("edge", [0, 1])] if d == 2 else [])
        if quick:
            lay = [lay[seed % 2 ** d]] + ([lay[4 + seed % 2]] if d == 2 else [])
        for li, (layout, corner) in enumerate(lay):
            for ai, (acq, kappa) in enumerate(bacq):
                for yerr in ([bool((li + ai + d + seed) % 2)] if quick else [False, True]):
                    k_ = li + ai + d + seed + int(yerr)
                    cfgb = {"d": d, "acq": acq, "kappa": kappa, "script": scripts[k_ % len(scripts)], "yerr": yerr, "layout": layout, "corner": corner,
                            "xform": xforms[k_ % len(xforms)], "bform": BOUND_FORMS[k_ % len(BOUND_FORMS)], "depth": 3}
                    bcases += [dict(cfgb, first=first) for first in [None] + ACTIONS]
    bres = ck.run_cases("history", bcases, chunk=1)
    btags = sorted({t for r in bres for t in r.get("tags", ()) if t.startswith("boundary-design") and "at-a-row-of-the-data" in t and "proposals-in-a-row=3" in t})
    if not btags and not any(r.get("fails") for r in bres):
        raise HarnessError("boundary designs: no history with three proposals in a row returned to the boundary point that is already in the data (the situation the designs exist for)")
    ck.extra["boundary_designs"] = {"configurations": len(bcases) // 4, "histories_per_configuration": 40, "transitions_executed_and_checked": int(sum(r.get("transitions", 0) for r in bres)),
                                    "third-proposal-in-a-row-at-the-boundary-point-in-the-data": btags}
    # ---- repeated measurements: every history of length <= 3 over {A, Ri, Rl, Pb} that contains a repeat action
    rcases = []
    racq = [("EI", None), ("UCB", 2.0), ("MV", None)]
    for d in (1, 2):
        xforms = ("col", "flat", "strided") if d == 1 else ("own", "view")
        for yi, yerr in enumerate((True, False)):
            sel = [racq[(d + yi + seed) % 3]] if quick else racq
            for ai, (acq, kappa) in enumerate(sel):
                cfgr = {"d": d, "acq": acq, "kappa": kappa, "script": scripts[(d + yi + ai) % len(scripts)], "yerr": yerr, "layout": ["inside", "outside"][(yi + ai + seed) % 2],
                        "xform": xforms[(yi + ai + seed) % len(xforms)], "bform": BOUND_FORMS[(d + yi + ai + seed) % 3], "depth": 3, "alphabet": ACTIONS_REPEAT, "must_contain": REPEATS}
                rcases += [dict(cfgr, first=first) for first in ACTIONS_REPEAT]
    rres = ck.run_cases("history", rcases, chunk=1)
    ck.extra["repeated_measurements"] = {"alphabet": ACTIONS_REPEAT, "configurations": len(rcases) // len(ACTIONS_REPEAT), "depth": 3,
                                         "histories_with_a_repeat_per_configuration": sum(4 ** l - 2 ** l for l in (1, 2, 3)),
                                         "transitions_executed_and_checked": int(sum(r.get("transitions", 0) for r in rres))}
    # ---- numeric dtypes / containers of the initial data and of the added evaluations
    dcases = []
    dacq = [("EI", None), ("UCB", 2.0), ("MV", None)]
    nk = len(DT_XKINDS)
    for d in (1, 2):
        for xi, xkind in enumerate(DT_XKINDS):
            for r in range(DT_NADD_FORMS):
                if quick:
                    # Latin-square slice: every (stored x kind, form of the added x) pair and every (stored y kind, form of the added y) pair
                    # is met in both d (three consecutive add forms per case); d = 2 takes every other rotation
                    if d == 2 and (r + xi + seed) % 2:
                        continue
                    ysel = [(xi + r + seed) % nk]
                    yrots = [(xi + 2 * r + seed) % DT_NADD_FORMS]
                    asel = [dacq[(xi + r + d + seed) % 3]]
                else:
                    ysel, yrots, asel = range(nk), range(DT_NADD_FORMS), [dacq[(xi + r + d + seed) % 3]]
                for yi in ysel:
                    for yrot in yrots:
                        for acq, kappa in asel:
                            dcases.append({"d": d, "xkind": xkind, "ykind": DT_YKINDS[yi], "rot": r, "yrot": yrot, "acq": acq, "kappa": kappa,
                                           "yerr": bool((xi + yi + r + yrot) % 2), "script": scripts[(xi + r) % len(scripts)], "nadd": 3})
    dres = ck.run_cases("dtype", dcases, chunk=1)
    ck.extra["dtype_forms"] = {"configurations": len(dcases), "adds_per_configuration": 3, "initial_x_kinds": DT_XKINDS, "initial_y_kinds": DT_YKINDS,
                               "library_calls": int(sum(r.get("n", 0) for r in dres))}
    ck.extra["history_search"] = {
        "configurations": len(hcases) // 4,
        "histories_per_configuration": 1 + 3 + 9 + 27,
        "states_distinct_data_and_pending_proposal": int(sum(r.get("states", 0) for r in res)),
        "transitions_executed_and_checked": int(sum(r.get("transitions", 0) for r in res)),
        "post_states_probed_against_a_fresh_optimiser": int(sum(r.get("probed_states", 0) for r in res)),
        "depth": 3,
    }
    ck.rule = (
        "Part D: cartesian product d{1,2} x n{3,6} x design x hyper-parameter pattern{unit,aniso,short} x noise x mean{Constant,Linear} x 3 query points x "
        "acquisition{EI x z-lattice, UCB kappa{2,0}, MaxVariance}; a tag is one (acquisition, GP configuration, query, z) compared with all oracles. "
        "Unsteered ladder (same evaluator and ALL its oracles - ln EI / EI relative to the 50-digit definition on the real predictive (mu, sigma) and on the reference GP, optvalue, gradient = Richardson derivative of the real opt_func "
        "and reference gradient; keys value|optvalue|optgrad/<Acq>/.../unsteered,<band>/...): data on a rising trend along the first coordinate, d{1,2} x n{4,6} x hyper-parameter pattern x amplitude factor {0.25,0.1[,0.03]} x noise "
        "{uniform 0.1, accurately measured 1e-3/2e-3[, none]} x mean {LinearMean following the trend and extrapolating it, ConstantMean at the data average} x 16 query points (a ladder from 3 length-scales below the data to 6 "
        "above along the first coordinate, and 3 points next to the largest datum) x acquisition {EI, UCB, MaxVariance}; NO steering: the improvement z-score is what the model gives; a tag 'unsteered,<Acq>,<band>' is one visited band of "
        "z = (mu - y_max)/sigma (EI), mu/sigma (UCB) in (-inf,-6], (-6,-3], (-3,0], (0,3], (3,6], (6,inf), or of variance / prior variance (MaxVariance) in (-inf,1e-6], (1e-6,1e-3], (1e-3,0.5], (0.5,inf); the run is a harness error "
        "unless EI visits the four middle z bands. "
        "Units far from 1 (keys .../units-far-from-1, slack names scaled/...): the same evaluator and ALL its oracles with (x, query points, length-scales) multiplied by xscale and (y, y_err, amplitude, "
        "mean-function parameters) by yscale for (xscale, yscale) in {(1,1e-9), (1,1e-6), (1,1e6), (1e-6,1), (1e6,1)} (thorough: also (1e-6,1e6), (1e6,1e-6), (1e6,1e-9)) x d{1,2} x acquisition{EI x z-lattice, "
        "UCB kappa{2,0}, MaxVariance} x (quick: one rotating (n, hyper-parameter pattern, noise, mean); thorough: their product). "
        "Boundary designs (same history evaluator; key history/propose-<route>/outside-bounds/incumbent-on-the-boundary-and-in-the-data, tags boundary-design ...): initial designs whose LAST row is a corner "
        "of the search box (d = 1: an end point) or - 'edge', d = 2 - the ridge point of a face, with an objective rising monotonically towards it, so that the incumbent maximum is on the boundary and in the data and "
        "stays there under every add; every sequence of length <= 3 over {propose(bfgs), propose(diffev), add_evaluation} (three proposals in a row by either route included; an add of the pending proposal repeats "
        "the boundary point) x acquisition {UCB kappa=0 (pure exploitation: the optimum IS the evaluated boundary point), EI, MaxVariance, UCB kappa=2} x d x (quick: one seed-rotated corner per d and one face; "
        "thorough: all 2^d corners and two faces, y_err{no,yes}) x rotating script / input form / bounds container; every proposal must lie in the original box, all other invariants and probes as for any history; a "
        "boundary tag is (layout, d, acquisition, route, proposal on the boundary or not, at a row of the data or new, proposals in a row). "
        "Part C: every sequence of length <= 3 over {propose(bfgs), propose(diffev), add_evaluation} (40 histories per configuration, each rebuilt and replayed "
        "on fresh objects, so three proposals in a row by either route and every mixture are included) x d{1,2} x acquisition x start script over {0,1/2,1-} x y_err{no,yes} x "
        "(bounds layout, input array form) x container form of the search bounds {list of tuples, list of lists, float ndarray (d,2), int64 ndarray (d,2) holding an integer box} - "
        "the bounds form is a Latin-square slice of the product (rotated with acquisition, configuration and seed so that every form meets every d, acquisition and optimiser route); "
        "after EVERY call the caller's bounds object must be identical (bytes, shape, dtype; deep equality for lists) to what was passed and every proposal must lie in the ORIGINAL box "
        "(kept separately by the harness) - the quick tier takes a seed-rotated "
        "slice of that configuration product (15 configurations), the thorough tier all of it (320); states = distinct (data, pending proposal) reached, "
        "transitions = calls whose post-state was checked. In EVERY post-state (constructor and after every propose/add of every history) the optimiser's acquisition is "
        "evaluated (__call__, opt_func, opt_func_gradient, in an order rotated by probe/history position, inputs alternately (1,d) and (d,)) at the probe menu "
        "{last point probed in the previous state, point just added (first and again after the others), menu points 0 and 1 (probed before and after they are added), "
        "an initial data point, a point never added, the pending proposal or else the menu point that would be added next} and compared with a fresh GpOptimiser built "
        "directly from the accumulated data and the current model's hyper-parameters; a probe tag is (role, d, acquisition, kind of the last call, adds so far). "
        "Repeated measurements: every history of length <= 3 over {add (menu point / pending proposal), Ri = add at an initial data point, Rl = add at the point added last (before any add: "
        "the last initial point), propose(bfgs)} that contains Ri or Rl (70 per configuration) x d{1,2} x y_err{yes,no} x acquisition (quick: one rotating per (d, y_err); thorough: all three), "
        "y = current incumbent + 1/4, errors and input forms rotating as for other adds; same invariants and probes in every post-state (the data are the initial data plus EVERY added "
        "evaluation in order, the model is re-fitted to them, mu_max = max y); a repeat tag is (which point, d, y_err, acquisition, input form, pending proposal, rows at that location)."
        " Numeric dtypes / containers (evaluator 'dtype'): initial x in {float64, int64, float32, list of ints, int32, list of floats} (integer kinds hold an integer-valued design; d = 1 "
        "alternately flat / column) x initial y in the same six kinds (integer kinds hold integer values) x d{1,2} x rotation of three consecutive adds through the six forms of an added location "
        "{python float 1.7, python int, int64 (d,) array, float32 (1,d) array, list of ints, int32 0-d / (1,d) array} and the six forms of an added value {python float 6.8, python int, numpy int64 scalar, "
        "int32 0-d array, float32 (1,) array, float32 scalar} x acquisition x y_err{no,yes}; quick: a Latin-square slice in which every (stored kind, added form) pair occurs for x and for y; thorough: the "
        "whole (x kind, y kind, x-form rotation, y-form rotation) product. After the constructor and after EVERY add: x / y / gp.x / gp.y (read as float64) are exactly the initial values followed by "
        "the float64 value of every evaluation that was added, mu_max = max of all y given, the caller's objects are untouched, and mean / variance of the optimiser's model at four points (two fixed, "
        "the point just added, the midpoint to the first data point) equal those of a fresh GpOptimiser given the same evaluations as float64 arrays and the same hyper-parameters. "
        "A dtype tag is (d, stored kind, added form, integer-valued or not[, new maximum or not])."
    )
    ck.assume("numeric dtypes: the statement 'adding an evaluation makes it part of the data the next model is fitted to and updates the incumbent maximum' has no clause about dtypes, so an "
              "integer / float32 / list container of the initial data is taken to carry NUMBERS: the value that was added (converted exactly to float64) must be the new row whatever dtype the earlier data "
              "were stored in, and the incumbent is the maximum of the y values given; the dtype the library keeps its arrays in is not prescribed (they are compared as float64 values). Predictions are "
              "compared with a fresh optimiser on the same data as float64 to 64 eps cond(K) x (data scale | prior variance): the hyper-parameter selection of the re-fit is not compared")
    ck.assume("repeated measurements: a second evaluation at a location already in the data is an ordinary evaluation (noisy objective; also without y_err, where the model's diagonal jitter "
              "keeps the covariance factorisable): the property's 'adding an evaluation makes it part of the data and updates the incumbent' has no exception for it; a pending proposal stays pending")
    ck.assume("units: the property quantifies over 'any regressor state', so the magnitude of x and y is not restricted: the scaled lattices hold the SAME problems in other units (1e-9 .. 1e6 in y, 1e-6 .. 1e6 in x) "
              "and are judged with the same derived tolerances, which are all relative to the problem's own scales (eps x cond x |mu|, sigma^2, ...); hyper-parameters are given, not fitted, there")
    ck.assume("boundary designs: 'every proposed evaluation lies inside the search bounds' is claimed for whatever the acquisition's optimum is, including a boundary point that is already a row of the data (noise-free or noisy); "
              "nothing is claimed about WHICH point is proposed")
    ck.assume("continuous inputs are represented by the listed finite lattice (d<=2, n<=6, SquaredExponential kernel, z in [-40, 8]); z is steered through public inputs only (the mean-function constant, or inside the data hull the value of the incumbent data point); targets above the ceiling reachable inside the hull and points whose variance is below resolution are skipped and counted")
    ck.assume("unsteered ladder: the bands of z / mu/sigma / relative variance that are visited are reported (coverage.unsteered_ladder); a tail shortcut of an acquisition function that is only taken in a band no configuration of the ladder "
              "or of the steered z-lattice reaches is not seen; EI is compared on the logarithmic scale (= relative) wherever ln EI > -700, below that only 0 <= EI <= 1e-300 is demanded")
    ck.assume("ExpectedImprovement accuracy: the far-tail form's rounding error everywhere, and additionally the documented form sigma(z F + P) evaluated in doubles wherever that form's own error is below 1e-10 relative (z >~ -3.2); the location of the switch is not prescribed")
    ck.assume("scipy's differential_evolution draws from numpy's global RandomState, which is seeded per call; for it only 'the proposal lies in the bounds' and the data/incumbent invariants are claimed. The random starts of the bfgs route (numpy.random.random imported by name into inference.gp.acquisition and inference.gp.regression) are scripted: every call returns the constant 0, 1/2 or 1-, or cycles through them")
    ck.assume("history-independence probes: the acquisition after any history must equal (1e-12 relative; against max(|.|, 1) for the O(1) sums -ln EI and mean + kappa sigma) that of a fresh "
              "GpOptimiser given the accumulated data (x, y, y_err) and the hyper-parameters the optimiser's current model reports (GpRegressor.hyperpars) - the hyper-parameter SELECTION after a re-fit is not "
              "compared, only what the acquisition computes from the selected model; the value part of opt_func_gradient must equal opt_func at every probe to the same tolerance; probing is assumed free of side effects "
              "on the unchanged library (the scripted start counter is restored after building the reference object)")
    ck.assume("search bounds: a (d,2) ndarray (float or integer) and a list of [lower, upper] lists are taken to be legal forms of the documented 'iterable of (lower_bound, upper_bound)'; "
              "the integer form uses the integer box [-1 or 1, 4] (x [-1, 4]) instead of [-0.25 or 0.5, 3.25]; one container form per configuration (not the full product with the other axes)")
    ck.assume("add_evaluation adds the pending proposal (the object propose_evaluation returned) when there is one, else the next point of a fixed menu in rotating input forms (float, (d,), (1,d), 0-d); y from a fixed deterministic objective")
