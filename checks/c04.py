"""C04 – parameter limits are never violated.

(i)   fold maps on lattices (Engine D): Bounds.reflect / reflect_momenta and the Gibbs proposal functions (driven
      through a real chain whose generator returns the wanted raw proposal) on lower + k*width/8, |k| <= 400, for
      boxes of several magnitudes: inside, identity inside, symmetric fold, period 2*width, momentum sign parity;
(ii)  limit state machine (Engine C): every sequence (to a depth) of set_boundaries / remove / set_non_negative
      calls on a Gibbs parameter, reference model = (last un-removed box, non-negativity flag); in every state every
      proposal from an overshoot alphabet lies in the intersection of the limits in force;
(iii) samplers (Engine A): every argument handed to the user's posterior AND gradient, and every recorded sample,
      for Gibbs/Metropolis/PCA/HMC/Ensemble with bounds, draws up to 50 widths, starts on the walls.
"""
import itertools
import math

import numpy as np

from mc.core import HarnessError, fail, lib
from mc.explore import Cut, explore
from mc.mcmcseam import set_rng
from mc.rngseam import ScriptedGenerator

LEVEL = "model_checking"

BOXES = [(0.0, 1.0), (-3.0, 5.0), (1e8, 1e8 + 1.0), (-1e-3, 2e-3), (-1e6, -1e6 + 1e3), (0.1, 0.7), (-2.3, -0.2), (3.3e-7, 4.1e-7)]


def ulp_tol(lo, hi):
    return 4.0 * float(np.spacing(max(abs(lo), abs(hi))))


def ref_fold(x, lo, hi):
    """symmetric fold of x into [lo, hi] computed with exact rational arithmetic"""
    from fractions import Fraction as F

    X, L, H = F(x), F(lo), F(hi)
    W = H - L
    d = (X - L) % (2 * W)
    y = L + d if d <= W else L + 2 * W - d
    nfold = ((X - L) // W)
    return float(y), int(nfold % 2)


class OneShot:
    """generator stand-in: normal() returns the prescribed raw proposal; random() accepts"""

    def __init__(self):
        self.raw = 0.0

    def normal(self, loc=0.0, scale=1.0, size=None):
        return self.raw if size is None else np.full(size, self.raw)

    def random(self, size=None):
        return 0.0


def ev_fold(case):
    from inference.mcmc import Bounds, GibbsChain

    lo, hi = case["box"]
    w = hi - lo
    tol = ulp_tol(lo, hi)
    fails, fkeys, tags = [], set(), set()
    n = 0
    slack = {}

    def add_fail(key, what, **kw):
        if key not in fkeys:
            fkeys.add(key)
            fails.append(fail(key, what, box=[lo, hi], **kw))

    ks = list(range(-400, 401))
    off = case.get("offset", 0.0)
    xs = [lo + (k + off) * w / 8.0 for k in ks]
    with lib("Bounds"):
        B = Bounds(lower=np.array([lo, lo]), upper=np.array([hi, hi]))
    # GibbsChain parameter with these boundaries, raw proposals injected through the generator
    seen = []
    inside_pt = lo + 0.5 * w

    def postfn(t):
        seen.append(float(t[0]))
        return 0.0

    with lib("GibbsChain"):
        ch = GibbsChain(posterior=postfn, start=np.array([inside_pt]), widths=np.array([w]), display_progress=False)
        ch.set_boundaries(0, (lo, hi))
    gen = OneShot()
    set_rng(ch, gen)
    for k, x in zip(ks, xs):
        ref, par = ref_fold(x, lo, hi)
        th = np.array([x, inside_pt])
        with lib("Bounds.reflect"):
            y = B.reflect(th.copy())
        with lib("Bounds.reflect_momenta"):
            y2, refl = B.reflect_momenta(th.copy())
        gen.raw = x
        del seen[:]
        with lib("Gibbs.take_step"):
            ch.take_step()
        n += 3
        for name, val in (("Bounds.reflect", y[0]), ("Bounds.reflect_momenta", y2[0]), ("Gibbs.boundary-proposal", seen[0] if seen else float("nan"))):
            val = float(val)
            if not (lo - tol <= val <= hi + tol):
                add_fail(f"fold/{name}/outside-limits", f"fold({x!r}) = {val!r} not in [{lo},{hi}] (+-{tol:.3g})", x=x)
            e = abs(val - ref)
            allowed = tol + 4 * float(np.spacing(abs(x))) if abs(x) > 0 else tol
            slack[f"fold-{name}"] = max(slack.get(f"fold-{name}", 0.0), e / allowed)
            if e > allowed:
                if lo <= x <= hi:
                    add_fail(f"fold/{name}/not-identity-inside", f"fold({x!r}) = {val!r}", x=x)
                else:
                    add_fail(f"fold/{name}/not-the-symmetric-fold", f"fold({x!r}) = {val!r}, symmetric fold gives {ref!r}", x=x)
        if float(y[1]) != inside_pt or float(y2[1]) != inside_pt:
            add_fail("fold/Bounds/other-coordinate-changed", f"{y[1]!r}")
        # momentum sign: reversed exactly when folded an odd number of times (points exactly on a wall are ambiguous)
        frac = (x - lo) / w
        if abs(frac - round(frac)) > 1e-9:
            want = -1.0 if par else 1.0
            if float(refl[0]) != want or float(refl[1]) != 1.0:
                add_fail("fold/Bounds.reflect_momenta/momentum-sign-not-parity-of-folds", f"x={x!r}: sign {refl.tolist()} expected {want}", x=x)
        tags.add("inside" if lo <= x <= hi else ("odd-folds" if par else "even-folds"))
    # abs proposal (non-negativity)
    with lib("GibbsChain"):
        ch2 = GibbsChain(posterior=postfn, start=np.array([abs(inside_pt) + 1.0]), widths=np.array([w]), display_progress=False)
        ch2.set_non_negative(0, True)
    gen2 = OneShot()
    set_rng(ch2, gen2)
    for x in xs[::7]:
        gen2.raw = x
        del seen[:]
        with lib("Gibbs.take_step-nonneg"):
            ch2.take_step()
        n += 1
        v = seen[0]
        if v < 0 or v != abs(x):
            add_fail("fold/Gibbs.abs-proposal/not-the-mirror-at-zero", f"raw {x!r} -> {v!r}", x=x)
    return {"fails": fails, "n": n, "tags": {f"box={lo},{hi}:{t}" for t in tags}, "slack": slack, "states": len(xs), "transitions": n}


# --------------------------------------------------------------------------- (ii) limit state machine
SM_BOXES = {"b1": (0.5, 1.0), "b2": (-3.0, 5.0), "b3": (-1.0, 0.9)}
SM_CALLS = ["b1", "b2", "b3", "rm", "nn1", "nn0", "bad"]  # "bad": set_boundaries with lower >= upper (refused with a warning)
SM_START = 0.75
OVERSHOOT = [-60.0, -7.3, -1.4, -0.3, 0.0, 0.2, 0.9, 4.1, 33.0]


def ev_limits(case):
    from inference.mcmc import GibbsChain

    seq = case["calls"]
    fails, fkeys = [], set()
    states, n = set(), 0

    def add_fail(key, what, **kw):
        if key not in fkeys:
            fkeys.add(key)
            fails.append(fail(key, what, calls=seq, **kw))

    seen = []

    def postfn(t):
        seen.append(float(t[0]))
        return 0.0

    def apply(ch, c):
        if c == "bad":
            ch.set_boundaries(0, (2.0, -0.5))  # refused: the limits in force must stay what they were
        elif c in SM_BOXES:
            ch.set_boundaries(0, SM_BOXES[c])
        elif c == "rm":
            ch.set_boundaries(0, None, remove=True)
        elif c == "nn1":
            ch.set_non_negative(0, True)
        elif c == "nn0":
            ch.set_non_negative(0, False)

    box, nn = None, False
    for i, c in enumerate(seq):
        if c in SM_BOXES:
            box = SM_BOXES[c]
        elif c == "rm":
            box = None
        elif c == "bad":
            pass
        else:
            nn = c == "nn1"
        lo = -math.inf if box is None else box[0]
        hi = math.inf if box is None else box[1]
        if nn:
            lo = max(lo, 0.0)
        fp = []
        for raw in OVERSHOOT:
            # a fresh real chain brought to this state by replaying the calls, then one step whose raw proposal
            # for parameter 0 is prescribed (parameter 1, never limited, is handed its current value)
            with lib("GibbsChain"):
                ch = GibbsChain(posterior=postfn, start=np.array([SM_START, 0.3]), widths=np.array([1.0, 1.0]), display_progress=False)
            for cc in seq[: i + 1]:
                with lib(f"call-{cc}"):
                    apply(ch, cc)
            gen = OneShot()
            vals = iter([raw, 0.3])
            gen.normal = lambda loc=0.0, scale=1.0, size=None, vals=vals: next(vals)
            set_rng(ch, gen)
            del seen[:]
            with lib("take_step"):
                ch.take_step()
            n += 1
            v0 = seen[0]
            fp.append(round(v0, 9))
            tol = 0.0 if not math.isfinite(lo + hi) else ulp_tol(lo if math.isfinite(lo) else 0.0, hi if math.isfinite(hi) else 0.0)
            if not (lo - tol <= v0 <= hi + tol):
                which = ("box+nonneg" if (box is not None and nn) else "box" if box is not None else "nonneg")
                lastkind = "after-" + ("set_boundaries" if c in SM_BOXES else {"rm": "remove", "nn1": "set_non_negative(True)", "nn0": "set_non_negative(False)", "bad": "refused-set_boundaries"}[c])
                add_fail(f"limits/GibbsChain/{which}-in-force-but-proposal-outside/{lastkind}",
                         f"after {seq[: i + 1]} limits in force are [{lo},{hi}] but raw proposal {raw} was evaluated at {v0!r}", prefix=seq[: i + 1], raw=raw)
            if box is None and not nn and v0 != raw:
                add_fail("limits/GibbsChain/no-limit-in-force-but-proposal-changed", f"after {seq[: i + 1]} raw {raw} -> {v0!r}", prefix=seq[: i + 1], raw=raw)
            if len(seen) > 1 and seen[-1] != v0 and False:
                pass
        states.add(((box, nn), tuple(fp)))
    return {"fails": fails, "n": n, "states": len(states), "transitions": len(seq), "tags": {f"limits-state:{s[0]}" for s in states}}


# --------------------------------------------------------------------------- (iii) samplers
def spost(t):
    t = np.asarray(t, dtype=float)
    return float(-0.5 * ((t - 0.1) ** 2).sum())


def sgrad(t):
    return -(np.asarray(t, dtype=float) - 0.1)


SBOX = {"unit": (np.array([0.0, -1.0]), np.array([1.0, 0.5])), "far": (np.array([1e4, -3e-3]), np.array([1e4 + 2.0, 2e-3])),
        "neg": (np.array([-5.0, -2.0]), np.array([-4.0, -0.5])),
        # narrower than 1e-5 of its own location: relative steps of any helper computation are larger than the box
        "narrow-far": (np.array([1e4, -5e3]), np.array([1e4 + 0.05, -5e3 + 0.02]))}


def ev_sampler(case):
    from inference.mcmc import EnsembleSampler, GibbsChain, HamiltonianChain, PcaChain
    from inference.mcmc.gibbs import MetropolisChain

    kind, boxname, where, d = case["sampler"], case["box"], case["start"], case["d"]
    lo, hi = SBOX[boxname][0][:d], SBOX[boxname][1][:d]
    w = hi - lo
    tol = np.array([ulp_tol(a, b) for a, b in zip(lo, hi)])
    fails, fkeys, tags = [], set(), set()
    nexec = [0]
    nev = [0]
    centre = lo + 0.37 * w

    def add_fail(key, what, **kw):
        if key not in fkeys:
            fkeys.add(key)
            fails.append(fail(key, what, config=case, **kw))

    if where == "lower-wall":
        start = lo.copy()
    elif where == "upper-wall":
        start = hi.copy()
    elif where == "corner":
        start = np.where(np.arange(d) % 2 == 0, lo, hi)
    else:
        start = centre.copy()

    def check_pt(t, what, ctx):
        t = np.asarray(t, dtype=float).reshape(-1)
        nev[0] += 1
        if not np.all(np.isfinite(t)):
            add_fail(f"sampler/{kind}/{what}-at-non-finite-point", f"{t.tolist()}", choices=ctx.choices)
        elif np.any(t < lo - tol) or np.any(t > hi + tol):
            add_fail(f"sampler/{kind}/{what}-outside-bounds", f"{t.tolist()} not in [{lo.tolist()},{hi.tolist()}]", choices=ctx.choices)

    def body(ctx):
        count = [0]

        def P(t):
            check_pt(t, "posterior-evaluated", ctx)
            count[0] += 1
            if count[0] > case.get("horizon", 60 if kind == "HamiltonianChain-fd" else 8 * case["steps"]):
                raise Cut()  # horizon: retry loops make the execution space cyclic
            return spost((np.asarray(t) - lo) / w)

        def G(t):
            check_pt(t, "gradient-evaluated", ctx)
            return sgrad((np.asarray(t) - lo) / w) / w

        alph = case["alphabet"]
        gen = ScriptedGenerator(ctx, normal=alph, quantiles=(0.05, 0.95))
        with lib("construct"):
            if kind in ("GibbsChain", "MetropolisChain"):
                cls = GibbsChain if kind == "GibbsChain" else MetropolisChain
                ch = cls(posterior=P, start=start.copy(), widths=w.copy(), display_progress=False)
                for i in range(d):
                    ch.set_boundaries(i, (float(lo[i]), float(hi[i])))
            elif kind == "PcaChain":
                ch = PcaChain(posterior=P, start=start.copy(), widths=w.copy(), bounds=(lo.copy(), hi.copy()), display_progress=False)
                if case.get("oblique") and d == 2:
                    ch.directions = [np.array([1.0, 1.0]) / math.sqrt(2), np.array([1.0, -1.0]) / math.sqrt(2)]
            elif kind in ("HamiltonianChain", "HamiltonianChain-fd"):
                ch = HamiltonianChain(posterior=P, grad=(G if kind == "HamiltonianChain" else None), start=start.copy(), bounds=(lo.copy(), hi.copy()),
                                      epsilon=case.get("eps", 0.7), inverse_mass=(w ** 2).copy(), display_progress=False)
                ch.steps = 3
            else:
                pos = np.array([start, centre, lo + 0.9 * w, lo + 0.6 * w, lo + np.array([0.2, 0.8][:d]) * w])
                ch = EnsembleSampler(posterior=P, starting_positions=pos, bounds=(lo.copy(), hi.copy()), alpha=case.get("alpha", 2.0), display_progress=False)
        if case.get("loaded"):
            # the limits must stay in force across save -> load (the reloaded sampler is given the same posterior/gradient)
            import os
            import tempfile

            fd, path = tempfile.mkstemp(suffix=".npz")
            os.close(fd)
            try:
                with lib("save-load"):
                    ch.save(path)
                    if kind == "HamiltonianChain":
                        ch = type(ch).load(path, posterior=P, grad=G)
                    else:
                        ch = type(ch).load(path, posterior=P)
            finally:
                os.unlink(path)
        set_rng(ch, gen)
        if hasattr(ch, "max_attempts"):
            ch.max_attempts = 3
        for _ in range(case["steps"]):
            try:
                with lib("step"):
                    if kind == "EnsembleSampler":
                        ch.advance(1)
                    else:
                        ch.take_step()
            except Exception as e:
                # the harness lowered max_attempts to 3 to keep the retry loop finite: running out of attempts is the horizon
                if "maximum allowed attempts" in str(e):
                    raise Cut()
                raise
        with lib("get_sample"):
            S = np.asarray(ch.get_sample(burn=0))
        for row in S:
            if np.any(row < lo - tol) or np.any(row > hi + tol) or not np.all(np.isfinite(row)):
                add_fail(f"sampler/{kind}/recorded-sample-outside-bounds", f"{row.tolist()}", choices=ctx.choices)
        return True

    for ctx, res in explore(body, bound=case["bound"], max_exec=100000):
        nexec[0] += 1
        if len(fails) >= 3 or (fails and nexec[0] > 2000):
            break  # the violation is established; do not unroll every failing retry loop
    tags.add(f"{kind}:{boxname}:{where}:d={d}" + (":loaded" if case.get("loaded") else ""))
    return {"fails": fails, "n": nexec[0], "states": nexec[0], "transitions": nev[0], "tags": tags}


EVALUATORS = {"fold": ev_fold, "limits": ev_limits, "sampler": ev_sampler}


def ev_outside_start(case):
    """A starting point that lies OUTSIDE the bounds (by a little, relative to the width - not relative to the magnitude of
    the bounds): the constructor either refuses it, or nothing outside the limits is ever evaluated or recorded."""
    from inference.mcmc import EnsembleSampler, HamiltonianChain, PcaChain

    kind, boxname, d, rel = case["sampler"], case["box"], case["d"], case["rel"]
    lo, hi = SBOX[boxname][0][:d], SBOX[boxname][1][:d]
    w = hi - lo
    tol = np.array([ulp_tol(a, b) for a, b in zip(lo, hi)])
    fails, tags = [], set()
    seen = []

    def P(t):
        seen.append(np.asarray(t, dtype=float).reshape(-1).copy())
        return spost((np.asarray(t) - lo) / w)

    def G(t):
        seen.append(np.asarray(t, dtype=float).reshape(-1).copy())
        return sgrad((np.asarray(t) - lo) / w) / w

    n = 0
    for side in ("below", "above"):
        start = (lo + 0.37 * w).copy()
        start[0] = lo[0] - rel * w[0] if side == "below" else hi[0] + rel * w[0]
        del seen[:]
        try:
            if kind == "PcaChain":
                ch = PcaChain(posterior=P, start=start.copy(), widths=w.copy(), bounds=(lo.copy(), hi.copy()), display_progress=False)
            elif kind == "HamiltonianChain":
                ch = HamiltonianChain(posterior=P, grad=G, start=start.copy(), bounds=(lo.copy(), hi.copy()), epsilon=0.3, inverse_mass=(w ** 2).copy(), display_progress=False)
                ch.steps = 3
            else:
                pos = np.array([start, lo + 0.4 * w, lo + 0.9 * w, lo + 0.6 * w, lo + np.array([0.2, 0.8][:d]) * w])
                ch = EnsembleSampler(posterior=P, starting_positions=pos, bounds=(lo.copy(), hi.copy()), display_progress=False)
        except (ValueError, AssertionError):
            tags.add(f"outside-start:{kind}:refused")
            n += 1
            continue
        # accepted: then the limits must hold for everything that is evaluated or recorded from now on
        ch.rng = np.random.default_rng(3)
        with lib("advance-after-accepted-outside-start"):
            ch.advance(3)
            S = np.asarray(ch.get_sample(burn=0))
        n += 1
        bad = [t for t in list(seen) + list(S) if np.any(t < lo - tol) or np.any(t > hi + tol)]
        if bad:
            fails.append(fail(f"outside-start/{kind}/accepted-and-evaluated-or-recorded-outside-the-bounds",
                              f"start {start.tolist()} ({side} by {rel:g} widths) was accepted; {len(bad)} evaluated/recorded points outside [{lo.tolist()},{hi.tolist()}], e.g. {bad[0].tolist()}", config=case, side=side))
        tags.add(f"outside-start:{kind}:accepted")
    return {"fails": fails, "n": n, "states": n, "transitions": n, "tags": tags}


EVALUATORS["outside_start"] = ev_outside_start


def run(ck):
    q = ck.quick
    offs = [0.0, 0.31, 0.5, 0.77]
    fc = [dict(box=list(b), offset=offs[(i + ck.seed) % 4] if i else 0.0) for i, b in enumerate(BOXES)]
    if not q:
        fc += [dict(box=list(b), offset=o) for b in BOXES for o in offs[1:]]
    ck.run_cases("fold", fc, chunk=1)
    depth = 4 if q else 5
    lc = [dict(calls=list(s)) for s in itertools.product(SM_CALLS, repeat=depth)]
    ck.run_cases("limits", lc)
    sc = []
    for kind in ("GibbsChain", "MetropolisChain", "PcaChain", "HamiltonianChain", "HamiltonianChain-fd", "EnsembleSampler"):
        for boxname in SBOX:
            for where in ("inside", "lower-wall", "upper-wall", "corner"):
                for d in (1, 2):
                    if kind == "EnsembleSampler" and where != "inside" and q:
                        continue
                    if q and (boxname, d) in (("far", 1), ("neg", 2), ("narrow-far", 1)):
                        continue
                    if boxname == "narrow-far" and q and not kind.startswith("Hamiltonian") and where != "inside":
                        continue
                    alph = [-50.0, -3.0, -0.3, 0.3, 3.0, 50.0] if d == 1 else [-50.0, -0.3, 0.3, 50.0]
                    c = dict(sampler=kind, box=boxname, start=where, d=d, alphabet=alph, steps=1 if q else 2, bound=3)
                    if kind == "PcaChain" and d == 2:
                        sc.append(dict(c, oblique=True))
                    if kind.startswith("Hamiltonian"):
                        sc.append(dict(c, eps=40.0))
                    sc.append(c)
                    if where in ("inside", "corner") and (d == 2 or not q):
                        sc.append(dict(c, loaded=True))
    ck.run_cases("sampler", sc, chunk=1)
    ck.run_cases("outside_start", [dict(sampler=k, box=b, d=d, rel=r) for k in ("PcaChain", "HamiltonianChain", "EnsembleSampler") for b in SBOX for d in (1, 2)
                                   for r in (1e-1, 1e-3, 1e-6)])
    ck.rule = ("(i) fold maps on the lattice lower+(k+offset)*width/8, |k|<=400, for 8 boxes of different magnitude/sign; (ii) all call sequences of length %d over "
               "{set_boundaries x3, remove, set_non_negative(True/False)} with the reference limit model, every state probed with 9 overshooting raw proposals; "
               "(iii) samplers x boxes x start points (inside, walls, corner) x d, every posterior/gradient argument and recorded sample, draws up to 50 widths, "
               "deviation bound stated. Distinct non-trivial = fold parity classes per box / distinct (reference limits, behaviour) states / sampler-box-start-d combos" % depth)
    ck.assume("finite lattices and alphabets as listed; limits intersection must be non-empty (boxes with upper <= 0 are not combined with non-negativity)")
