import numpy as np, warnings, time
warnings.simplefilter("ignore")
import inference.approx.conditional as C
# C20 weights on non-uniform grid
x = np.array([0., 1., 3., 3.5]); p = np.array([1., 1., 1., 1.])
s = C.piecewise_linear_sample(x, p, 200000)
print("C20 uniform density on non-uniform grid: fraction in cells", [( (s>=a)&(s<b) ).mean().round(3) for a,b in zip(x[:-1],x[1:])], "expected", np.diff(x)/3.5)
# conditionals
def post(t): return -0.5*((t[0]-1)/0.1)**2 - 0.5*((t[1]+2)/3.0)**2 - 0.5*(t[0]-1)*(t[1]+2)
ax, pr = C.get_conditionals(post, [(-5,5),(-20,20)], np.array([1.0,-2.0]))
from scipy.integrate import simpson
print("C20 cond norm", [simpson(pr[:,i], x=ax[:,i]) for i in range(2)], ax.min(axis=0), ax.max(axis=0))
# C15 run_for with slow steps via patched time
import inference.mcmc.base as B
from inference.mcmc import GibbsChain
class Clock:
    def __init__(s): s.t=1000.0
    def __call__(s): return s.t
clk = Clock(); B.time = clk
def mkpost(cost):
    def post(t):
        clk.t += cost; return -0.5*float(t[0]**2)
    return post
for cost in (1e-6, 1e-3, 0.1, 2.0, 30.0):
    clk.t = 1000.0
    g = GibbsChain(posterior=mkpost(cost), start=np.array([0.5]), widths=np.array([1.]), display_progress=False)
    t0 = clk.t
    # guard against infinite loop: count time() calls
    calls = [0]
    orig = Clock.__call__
    def counted(s):
        calls[0]+=1
        if calls[0] > 100000: raise RuntimeError("spin: >1e5 time() calls")
        return s.t
    Clock.__call__ = counted
    try:
        g.run_for(minutes=1); print("C15 run_for cost", cost, "steps", g.chain_length-1, "elapsed", clk.t-t0, "time calls", calls[0])
    except Exception as e: print("C15 run_for cost", cost, "FAIL", type(e).__name__, e, "steps", g.chain_length-1, "elapsed", clk.t-t0)
    Clock.__call__ = orig
