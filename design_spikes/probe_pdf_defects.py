import numpy as np, warnings, time
warnings.simplefilter("ignore")
from scipy.stats import norm, gamma, t as tdist
from scipy.special import erf
from inference.pdf import GaussianKDE, UnimodalPdf, sample_hdi
def det_sample(dist, n): return dist.ppf((np.arange(n)+0.5)/n)
base = det_sample(norm(), 400)
# C12 cross-val scale
for sc in (1e-3, 1.0, 1e3):
    t0=time.time()
    try:
        k = GaussianKDE(base*sc, cross_validation=True); print("C12 cv scale", sc, "h/scale", k.h/sc, "rule", k.simple_bandwidth_estimator()/sc, round(time.time()-t0,2),"s")
    except Exception as e: print("C12 cv scale", sc, "FAIL", type(e).__name__, e)
# exact KDE compare
def exact_pdf(s, h, x): return np.exp(-0.5*((x[:,None]-s[None,:])/h)**2).sum(axis=1)/(s.size*h*np.sqrt(2*np.pi))
def exact_cdf(s, h, x): return (0.5*(1+erf((x[:,None]-s[None,:])/(h*np.sqrt(2))))).mean(axis=1)
for name, s in [("norm", base), ("t2", det_sample(tdist(2), 2000)), ("bimodal", np.concatenate([base, base*0.3+6]))]:
    k = GaussianKDE(s)
    x = np.linspace(s.min()-10*k.h, s.max()+10*k.h, 4001)
    ep = abs(k(x)-exact_pdf(k.sample,k.h,x)).max()*k.h; ec = abs(k.cdf(x)-exact_cdf(k.sample,k.h,x)).max()
    print("C12", name, "h", k.h, "regions", len(k.slices), "pdf err*h", ep, "cdf err", ec, "cdf mono", (np.diff(k.cdf(x))>=-1e-12).all(), k.cdf(x)[[0,-1]])
# C19 
for name, s in [("norm", det_sample(norm(3,2), 1000)), ("gamma", det_sample(gamma(3), 1000))]:
    for shift, scale in [(0,1),(1e6,1),(0,1e-6),(0,1e6),(-1e4,1)]:
        d = s*scale+shift
        for cls in (GaussianKDE, UnimodalPdf):
            try:
                t0=time.time(); k = cls(d); mu,var,skw,kur = k.moments(); lo,hi = k.interval(0.68)
                F = k.cdf(np.array([lo,hi])); 
                print(f"C19 {name} {cls.__name__:12s} shift {shift:g} scale {scale:g}: mean {(mu-shift)/scale:.4f} var {var/scale**2:.4f} skw {skw:.3f} kur {kur:.3f} int ({(lo-shift)/scale:.3f},{(hi-shift)/scale:.3f}) mass {F[1]-F[0]:.4f} pdfends {k(lo)*scale:.4f} {k(hi)*scale:.4f} mode {(k.mode-shift)/scale:.3f} t={time.time()-t0:.1f}")
            except Exception as e: print("C19", name, cls.__name__, shift, scale, "FAIL", type(e).__name__, e)
