import numpy as np, warnings, traceback, tempfile, os
warnings.simplefilter("ignore")
from inference.mcmc import GibbsChain, PcaChain, HamiltonianChain, EnsembleSampler
from inference.mcmc.gibbs import MetropolisChain
def post(t): return -0.5*float((np.asarray(t)**2).sum())
def grad(t): return -np.asarray(t)
def tryit(name, f):
    try:
        r = f(); print("OK  ", name, "->", r)
    except Exception as e:
        print("FAIL", name, "->", type(e).__name__, str(e).strip().splitlines()[-1][:100] if str(e).strip() else "")

# C03 Metropolis probs
m = MetropolisChain(posterior=post, start=np.array([0.1,0.2]), widths=np.array([1.,1.]), display_progress=False)
for _ in range(5): m.take_step()
print("C03 metropolis len probs", len(m.probs), "chain_length", m.chain_length, "n samples", len(m.params[0].samples))
# C03 ensemble shares start array
st = np.random.default_rng(0).normal(size=(6,2)); st0 = st.copy()
e = EnsembleSampler(posterior=post, starting_positions=st, display_progress=False); e.advance(3)
print("C03 ensemble start mutated:", not np.array_equal(st, st0))
# C04 call orders
g = GibbsChain(posterior=post, start=np.array([0.5]), widths=np.array([5.]), display_progress=False)
g.set_boundaries(0, (0.25, 0.75)); g.set_non_negative(0, False)
g.advance(200); s = g.get_parameter(0, burn=0); print("C04 bounds then nonneg(False): min/max", s.min(), s.max())
g = GibbsChain(posterior=post, start=np.array([0.5]), widths=np.array([5.]), display_progress=False)
g.set_non_negative(0, True); g.set_boundaries(0, (-1, 1)); g.advance(200); s=g.get_parameter(0,burn=0); print("C04 nonneg then bounds(-1,1): min", s.min())
g = GibbsChain(posterior=post, start=np.array([0.5]), widths=np.array([5.]), display_progress=False)
g.set_non_negative(0, True); g.set_boundaries(0, (0.2, 1)); g.set_boundaries(0, None, remove=True); g.advance(200); s=g.get_parameter(0,burn=0); print("C04 nonneg, bounds, remove: min", s.min())
# C04 HMC finite diff eval outside bounds
evals=[]
def post_rec(t): evals.append(np.array(t)); return post(t)
h = HamiltonianChain(posterior=post_rec, start=np.array([1.0, 2.0]), bounds=(np.array([0.,0.]), np.array([1.0,2.0])), display_progress=False)
tryit("C04 hmc fd step at bound", lambda: h.take_step())
E = np.array(evals); print("   max eval", E.max(axis=0), "upper", [1.0,2.0])
# C07 finite diff zero coord
h = HamiltonianChain(posterior=post, start=np.array([0.0, 1.0]), display_progress=False)
print("C07 finite_diff at zero coord:", h.finite_diff(np.array([0.0,1.0])))
# C09 save/load continue
d = tempfile.mkdtemp()
def c09(name, mk, load):
    c = mk(); 
    try:
        c.advance(5) 
    except Exception as ex: print("adv fail", ex)
    fn = os.path.join(d, name+".npz")
    tryit(f"C09 {name} save", lambda: c.save(fn))
    if os.path.exists(fn):
        def cont():
            c2 = load(fn); c2.advance(3); return c2.chain_length
        tryit(f"C09 {name} load+advance", cont)
        def cont2():
            c2 = load(fn); 
            if hasattr(c2,'take_step'): c2.take_step()
            return c2.chain_length
        tryit(f"C09 {name} load+take_step", cont2)
c09("gibbs", lambda: GibbsChain(posterior=post, start=np.array([0.5,0.1]), widths=np.array([1.,1.]), display_progress=False), lambda fn: GibbsChain.load(fn, posterior=post))
c09("pca", lambda: PcaChain(posterior=post, start=np.array([0.5,0.1]), widths=np.array([1.,1.]), display_progress=False), lambda fn: PcaChain.load(fn, posterior=post))
c09("hmc", lambda: HamiltonianChain(posterior=post, grad=grad, start=np.array([0.5,0.1]), display_progress=False), lambda fn: HamiltonianChain.load(fn, posterior=post, grad=grad))
c09("hmc_vec", lambda: HamiltonianChain(posterior=post, grad=grad, start=np.array([0.5,0.1]), inverse_mass=np.array([1.,2.]), display_progress=False), lambda fn: HamiltonianChain.load(fn, posterior=post, grad=grad))
c09("ens", lambda: EnsembleSampler(posterior=post, starting_positions=np.random.default_rng(0).normal(size=(6,2)), display_progress=False), lambda fn: EnsembleSampler.load(fn, posterior=post))
# C14
g = GibbsChain(posterior=post, start=np.array([0.5,0.1]), widths=np.array([1.,1.]), display_progress=False); g.advance(50)
tryit("C14 get_interval samples=5", lambda: [a.shape for a in g.get_interval(0.9, burn=0, samples=5)])
tryit("C14 get_interval none", lambda: [a.shape for a in g.get_interval(0.9, burn=0)])
h = HamiltonianChain(posterior=post, grad=grad, start=np.array([0.5,0.1]), display_progress=False); h.advance(10)
print("C14 hmc get_parameter 1 sample shape", h.get_parameter(0, burn=10).shape, "0 samples", h.get_parameter(0, burn=11).shape, 'gibbs', g.get_parameter(0,burn=50).shape)
# C15
e = EnsembleSampler(posterior=post, starting_positions=np.random.default_rng(0).normal(size=(6,2)), display_progress=False)
tryit("C15 ensemble advance(0) fresh", lambda: e.advance(0))
g = GibbsChain(posterior=post, start=np.array([0.5]), widths=np.array([1.]), display_progress=False)
tryit("C15 gibbs advance(0)", lambda: (g.advance(0), g.chain_length))
