import numpy as np
from scipy.stats import truncnorm
from inference.mcmc import EnsembleSampler, PcaChain, GibbsChain
import inference.mcmc.ensemble as E
def prop(self, i):
    j = (self.rng.integers(low=1, high=self.n_walkers) + i) % self.n_walkers
    z = 0.5 * (self.x_lwr + self.x_width * self.rng.random()) ** 2
    p = self.process_proposal(self.walker_positions[j,:] + z*(self.walker_positions[i,:]-self.walker_positions[j,:]))
    return p, z
E.EnsembleSampler._EnsembleSampler__proposal = prop
rng = np.random.default_rng(1)
lo, hi = -0.5, 1.5
tn = truncnorm(lo, hi)
print("truth mean var", tn.mean(), tn.var())
post = lambda t: -0.5*float((t**2).sum())
for d in (1,2):
    s = EnsembleSampler(posterior=post, starting_positions=rng.uniform(lo,hi,size=(10,d)), bounds=(np.full(d,lo),np.full(d,hi)), display_progress=False)
    s.max_attempts = 1
    s.advance(40000)
    x = s.get_sample(burn=10*2000)
    print(d, "bounded single-attempt mean", x.mean(axis=0), "var", x.var(axis=0))
