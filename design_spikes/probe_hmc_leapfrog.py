import numpy as np, warnings
warnings.simplefilter("ignore")
from inference.mcmc import HamiltonianChain
A = np.array([[2.0,0.6],[0.6,1.0]])
def post(t): return -0.5*float(t@A@t) - 0.1*float((t**4).sum())
def grad(t): return -(A@t) - 0.4*t**3
for bounds in (None, (np.array([-0.3,-0.5]), np.array([0.4,0.6]))):
  for im in (None, 0.5, np.array([0.5,2.0]), np.array([[1.0,0.3],[0.3,0.7]])):
    c = HamiltonianChain(posterior=post, grad=grad, start=np.array([0.1,-0.2]), bounds=bounds, inverse_mass=im, temperature=2.0, display_progress=False)
    c.ES.epsilon = 0.13
    t0 = np.array([0.1,-0.2]); r0 = np.array([0.7,-1.1])
    t,r = c.run_leapfrog(t0.copy(), r0.copy(), 17)
    tb,rb = c.run_leapfrog(t.copy(), -r.copy(), 17)
    H0 = c.hamiltonian(t0,r0); H1 = c.hamiltonian(t,r)
    # jacobian
    def F(z): a,b = c.run_leapfrog(z[:2].copy(), z[2:].copy(), 17); return np.concatenate([a,b])
    z0 = np.concatenate([t0,r0]); J = np.zeros((4,4)); h=1e-6
    for i in range(4):
        e=np.zeros(4); e[i]=h; J[:,i]=(F(z0+e)-F(z0-e))/(2*h)
    dH=[]
    for eps in (0.13, 0.065, 0.0325):
        c.ES.epsilon=eps; n=int(round(17*0.13/eps)); tt,rr=c.run_leapfrog(t0.copy(), r0.copy(), n); dH.append(c.hamiltonian(tt,rr)-H0)
    print("bounds" if bounds else "free  ", type(c.mass).__name__, "rev err", abs(tb-t0).max(), abs(rb+r0).max(), "detJ", np.linalg.det(J), "dH", np.round(dH,6), "ratios", round(dH[0]/dH[1],2), round(dH[1]/dH[2],2))
    # momentum law
    class R: 
        def __init__(s,v): s.v=v
        def normal(s,size=None,scale=1.0,loc=0.0): return s.v*scale+loc
    M=[]
    for i in range(2):
        e=np.zeros(2); e[i]=1; rr=c.mass.sample_momentum(R(e)); M.append(rr)
    L=np.array(M).T; print("   L^T Minv L =", np.round(L.T@ (np.array([c.mass.get_velocity(L[:,i]) for i in range(2)]).T),10).tolist())
