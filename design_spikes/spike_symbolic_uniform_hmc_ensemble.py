"""Spike: symbolic uniform U with numpy interplay; explore real HMC and Ensemble take_step."""
import numpy as np, math, warnings; warnings.simplefilter("ignore")
from inference.mcmc import HamiltonianChain, EnsembleSampler

class SeamUnsupported(Exception): pass
class Ctx:
    def __init__(s,prefix): s.prefix=list(prefix); s.trace=[]; s.weight=1.0; s.obs=[]
    def choose(s,label,weights):
        i=len(s.trace); k=s.prefix[i] if i<len(s.prefix) else 0
        s.trace.append((label,k,len(weights))); s.weight*=weights[k]; return k
QUANT=[0.05,0.25,0.5,0.75,0.95]
class U:
    """value = f(u), u~U(0,1), f monotone increasing (inc=True) or decreasing; finv maps value->u"""
    def __init__(s,ctx,f=lambda u:u,finv=lambda v:v,inc=True,root=None): s.ctx=ctx; s.f=f; s.finv=finv; s.inc=inc; s.root=root if root is not None else {"u":None}
    # --- symbolic monotone transforms
    def _aff(s,a,b):
        if a==0: return b
        f,fi=s.f,s.finv
        return U(s.ctx,lambda u:a*f(u)+b,lambda v:fi((v-b)/a), s.inc if a>0 else not s.inc, s.root)
    def __add__(s,o): return s._aff(1.0,float(o))
    __radd__=__add__
    def __sub__(s,o): return s._aff(1.0,-float(o))
    def __rsub__(s,o): return s._aff(-1.0,float(o))
    def __mul__(s,o):
        if isinstance(o,np.ndarray) and o.ndim>0: return s.concretise()*o
        return s._aff(float(o),0.0)
    __rmul__=__mul__
    def __truediv__(s,o): return s._aff(1.0/float(o),0.0)
    def __pow__(s,p):
        lo,hi=sorted([s.f(0.0),s.f(1.0)])
        if lo<0: return s.concretise()**p
        f,fi=s.f,s.finv; return U(s.ctx,lambda u:f(u)**p,lambda v:fi(max(v,0.0)**(1.0/p)),s.inc,s.root)
    def __array_ufunc__(s,ufunc,method,*inputs,**kw):
        if method!="__call__": raise SeamUnsupported(ufunc)
        if ufunc in (np.add,np.subtract,np.multiply,np.true_divide,np.less,np.less_equal,np.greater,np.greater_equal):
            a,b=inputs
            import operator as op
            m={np.add:op.add,np.subtract:op.sub,np.multiply:op.mul,np.true_divide:op.truediv,np.less:op.lt,np.less_equal:op.le,np.greater:op.gt,np.greater_equal:op.ge}[ufunc]
            if a is s: return m(s,b)
            # reflected
            r={np.add:lambda:s.__radd__(a),np.subtract:lambda:s.__rsub__(a),np.multiply:lambda:s.__rmul__(a),
               np.less:lambda:s.__gt__(a),np.less_equal:lambda:s.__ge__(a),np.greater:lambda:s.__lt__(a),np.greater_equal:lambda:s.__le__(a)}
            return r[ufunc]()
        if ufunc in (np.log,np.exp,np.sqrt): return ufunc(s.concretise())
        raise SeamUnsupported(ufunc)
    # --- forks
    def _p_less(s,thr):
        thr=float(thr)
        lo,hi=s.f(0.0),s.f(1.0)
        if s.inc:
            if thr<=lo: return 0.0
            if thr>=hi: return 1.0
            return min(1.0,max(0.0,s.finv(thr)))
        else:
            if thr<=hi: return 0.0
            if thr>=lo: return 1.0
            return 1.0-min(1.0,max(0.0,s.finv(thr)))
    def _fork(s,p,thr,kind):
        if s.root["u"] is not None: return s.f(s.root["u"])<float(thr)
        s.ctx.obs.append(("cmp",kind,float(thr),p))
        if p>=1.0: return True
        if p<=0.0: return False
        return s.ctx.choose("cmp",[p,1-p])==0
    def __lt__(s,o): return s._fork(s._p_less(o),o,"<")
    __le__=__lt__
    def __gt__(s,o): return not s._fork(s._p_less(o),o,"<")   # P(v>thr)=1-P(v<thr)
    __ge__=__gt__
    def __int__(s):
        lo,hi=sorted([s.f(0.0),s.f(1.0)]); ks=list(range(math.floor(lo),math.floor(hi)+1))
        ps=[]
        for k in ks:
            p=s._p_less(k+1)-s._p_less(k); ps.append(max(p,0.0))
        ks=[k for k,p in zip(ks,ps) if p>1e-15]; ps=[p for p in ps if p>1e-15]
        i=s.ctx.choose("int",ps); s.ctx.obs.append(("int",ks[i])); return ks[i]
    def concretise(s):
        if s.root["u"] is None:
            i=s.ctx.choose("quantile",[1/len(QUANT)]*len(QUANT)); s.root["u"]=QUANT[i]; s.ctx.obs.append(("u",QUANT[i]))
        return s.f(s.root["u"])
    def __float__(s): return s.concretise()
class SRng:
    def __init__(s,ctx,xi): s.ctx=ctx; s.xi=xi
    def normal(s,loc=0.0,scale=1.0,size=None):
        n=1 if size is None else int(size); out=[]
        for _ in range(n):
            k=s.ctx.choose("normal",[1/len(s.xi)]*len(s.xi)); out.append(s.xi[k])
        v=np.array(out)
        return loc+scale*(v[0] if size is None else v)
    def random(s): return U(s.ctx)
    def integers(s,low,high):
        k=s.ctx.choose("int",[1/(high-low)]*(high-low)); return low+k
def explore(run):
    stack=[[]]; out=[]
    while stack:
        p=stack.pop(); ctx=Ctx(p); res=run(ctx); out.append((ctx,res))
        for i in range(len(p),len(ctx.trace)):
            for alt in range(1,ctx.trace[i][2]): stack.append([t[1] for t in ctx.trace[:i]]+[alt])
    return out
# ---- HMC
A=np.array([[2.0,0.6],[0.6,1.0]])
def post(t): return -0.5*float(t@A@t)
def grad(t): return -(A@t)
class Cut(Exception): pass
def run_hmc(ctx):
    c=HamiltonianChain(posterior=post,grad=grad,start=np.array([0.3,-0.2]),temperature=2.0,inverse_mass=np.array([[1.0,0.3],[0.3,0.7]]),display_progress=False)
    c.steps=5; c.ES.epsilon=0.2; c.rng=SRng(ctx,[-1.0,1.0]); c.max_attempts=2
    try: c.take_step()
    except ValueError: return ("fail",)
    return ("ok",tuple(np.round(c.theta[-1],6)),c.leapfrog_steps[-1])
res=explore(run_hmc)
print("HMC executions",len(res),"total weight",sum(c.weight for c,_ in res))
c,r=res[0]; print(" sample trace",c.trace,"obs",c.obs[:3],r)
# oracle on first-attempt threshold
import itertools
# ---- Ensemble
def post3(t): return -0.5*float((t**2).sum())
start=np.array([[0.1,0.2],[1.0,-0.5],[-0.7,0.9],[0.4,1.3]])
def run_ens(ctx):
    e=EnsembleSampler(posterior=post3,starting_positions=start.copy(),display_progress=False)
    e.rng=SRng(ctx,None); e.max_attempts=1
    ev=[]
    orig=e.posterior
    def rec(t): ev.append(t.copy()); return orig(t)
    e.posterior=rec
    e._EnsembleSampler__advance_walker(0) if False else None
    e.failed_updates=[0]
    e._EnsembleSampler__advance_walker(0)
    return (tuple(np.round(e.walker_positions[0],6)),tuple(np.round(ev[0],6)))
res=explore(run_ens)
print("Ensemble executions",len(res),"total weight",round(sum(c.weight for c,_ in res),12))
for c,r in res[:4]: print(" ",[t[:2] for t in c.trace],c.obs,r)
