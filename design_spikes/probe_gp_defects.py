import numpy as np, warnings
warnings.simplefilter("ignore")
from inference.gp import *
def tryit(name, f):
    try:
        r = f(); print("OK  ", name, "->", r)
    except Exception as e:
        print("FAIL", name, "->", type(e).__name__, (str(e).strip().splitlines() or [''])[-1][:120])
rng = np.random.default_rng(3)
# C02 hetero d=2
x = rng.uniform(size=(6,2)); y = np.sin(x[:,0]*3)+x[:,1]
def het():
    k = SquaredExponential()+HeteroscedasticNoise()
    gp = GpRegressor(x, y, kernel=k, hyperpars=np.array([0.1, 0.0, -0.5,-0.5]+[-2.]*6))
    return gp(np.array([[0.3,0.4],[0.1,0.2]]))
tryit("C02 hetero d=2 call", het)
def het1():
    k = SquaredExponential()+HeteroscedasticNoise()
    gp = GpRegressor(x[:,0], y, kernel=k, hyperpars=np.array([0.1, 0.0, -0.5]+[-2.]*6))
    return gp(np.array([0.3,0.4]))
tryit("C02 hetero d=1 call", het1)
# y_cov vs y_err
err = np.full(6, 0.1)
g1 = GpRegressor(x, y, y_err=err, hyperpars=np.array([0.1,0.0,-0.5,-0.5]))
g2 = GpRegressor(x, y, y_cov=np.diag(err**2), hyperpars=np.array([0.1,0.0,-0.5,-0.5]))
q = rng.uniform(size=(4,2))
print("C02 y_err vs y_cov equal:", np.allclose(g1(q)[0], g2(q)[0]), np.allclose(g1(q)[1], g2(q)[1]))
tryit("C02 y_cov list", lambda: GpRegressor(x, y, y_cov=np.diag(err**2).tolist(), hyperpars=np.array([0.1,0.0,-0.5,-0.5]))(q)[0])
# closed form check
def closed(gp, q):
    K = gp.cov(gp.x, gp.x, gp.cov_hyperpars) + gp.sig
    Kq = gp.cov(q, gp.x, gp.cov_hyperpars); Kqq = gp.cov(q,q,gp.cov_hyperpars)
    mu = np.array([gp.mean(p, gp.mean_hyperpars) for p in q]) + Kq @ np.linalg.solve(K, gp.y - gp.mean.build_mean(gp.mean_hyperpars))
    S = Kqq - Kq @ np.linalg.solve(K, Kq.T)
    return mu, S
mu, S = closed(g1, q); m2, S2 = g1.build_posterior(q)
print("C02 closed-form diff", abs(mu-m2).max(), abs(S-S2).max(), abs(g1(q)[0]-mu).max(), abs(g1(q)[1]**2-np.diag(S)).max())
# C10 changepoint 3 kernels gradient
x1 = np.linspace(0,1,9)[:,None]
cp = ChangePoint([SquaredExponential, SquaredExponential, SquaredExponential]); cp.pass_spatial_data(x1)
th = np.array([0.1,-1.0, 0.2,-1.5, -0.1,-0.7, 0.3,0.1, 0.7,0.15])
K, G = cp.covariance_and_gradients(th)
def fd(f, th, i, h=1e-6):
    a=th.copy(); b=th.copy(); a[i]+=h; b[i]-=h; return (f(a)-f(b))/(2*h)
errs=[abs(G[i]-fd(cp.build_covariance, th, i)).max() for i in range(th.size)]
print("C10 CP3 grad errors per param", np.round(errs,6))
cp2 = ChangePoint([SquaredExponential, RationalQuadratic]); cp2.pass_spatial_data(x1)
th2 = np.array([0.1,-1.0, 0.2,0.5,-1.5, 0.4,0.1]); K,G = cp2.covariance_and_gradients(th2)
print("C10 CP2 grad errors", np.round([abs(G[i]-fd(cp2.build_covariance, th2, i)).max() for i in range(th2.size)],8))
print("C10 CP3 build vs call", abs(cp.build_covariance(th)-cp(x1,x1,th)).max())
# C16 
xl = np.linspace(0,2,7); yl = np.sin(xl)+0.5*xl
for mean, hp in [(ConstantMean, [0.3]), (LinearMean,[0.3,0.8]), (QuadraticMean,[0.3,0.8,-0.2])]:
    gp = GpRegressor(xl, yl, mean=mean, hyperpars=np.array(hp+[0.0,-0.5]))
    q0 = 0.77; h=1e-5
    num = (gp(np.array([q0+h]))[0][0]-gp(np.array([q0-h]))[0][0])/(2*h)
    numv = (gp(np.array([q0+h]))[1][0]**2-gp(np.array([q0-h]))[1][0]**2)/(2*h)
    gm, gv = gp.gradient(np.array([q0])); dm, dv = gp.spatial_derivatives(np.array([q0]))
    print("C16", mean.__name__, "num dmu", num, "gradient()", float(gm), "spatial", float(dm), "| num dvar", numv, "dv", float(dv))
gp = GpRegressor(x, y, hyperpars=np.array([0.1,0.0,-0.5,-0.2]))
gm, gc = gp.gradient(np.array([[0.3,0.4]])); print("C16 d=2 grad cov\n", gc, "symmetric", np.allclose(gc, gc.T))
# C18 caller arrays
xo = np.array([0.1,0.5,0.9]); yo = np.array([1.,2.,0.5]); xs = xo.shape
def mk():
    o = GpOptimiser(xo, yo, bounds=[(0.,1.)], hyperpars=np.array([1.0,0.0,-1.0])); return xo.shape
tryit("C18 optimiser 1-D x shape after", mk)
xo2 = np.array([[0.1],[0.5],[0.9]]); o = GpOptimiser(xo2, yo, bounds=[(0.,1.)])
nx = np.array([0.3]); 
tryit("C18 add_evaluation new_x shape after", lambda: (o.add_evaluation(nx, 1.7), nx.shape, o.x.shape, o.y, o.acquisition.mu_max, o.gp.x.shape))
p = o.propose_evaluation(); print("C18 proposal", p)
