import numpy as np, time
from inference.mcmc import GibbsChain
from inference.mcmc.gibbs import MetropolisChain

class Cut(Exception): pass
class Ctx:
    def __init__(self, prefix): self.prefix=list(prefix); self.trace=[]; self.weight=1.0; self.obs=[]
    def choose(self, label, weights):
        i = len(self.trace)
        k = self.prefix[i] if i < len(self.prefix) else 0
        self.trace.append((label, k, len(weights))); self.weight *= weights[k]
        return k
class U:
    __array_ufunc__ = None
    def __init__(self, ctx, a=1.0, b=0.0): self.ctx=ctx; self.a=a; self.b=b
    def _cmp(self, thr, strict):
        # P(a*u+b < thr), a>0
        p = min(1.0, max(0.0, (float(thr)-self.b)/self.a))
        self.ctx.obs.append(("threshold", float(thr)))
        if p >= 1.0: return True
        if p <= 0.0: return False
        k = self.ctx.choose("accept", [p, 1-p]); return k == 0
    def __lt__(self, o): return self._cmp(o, True)
    def __le__(self, o): return self._cmp(o, False)
class SRng:
    def __init__(self, ctx, xi): self.ctx=ctx; self.xi=xi
    def normal(self, loc=0.0, scale=1.0, size=None):
        k = self.ctx.choose("normal", [1/len(self.xi)]*len(self.xi))
        return loc + scale*self.xi[k]
    def random(self): return U(self.ctx)

support = range(0, 6)
logpi = {x: -0.3*(x-2)**2 for x in support}
def post(t):
    x = t[0]
    xi = int(round(x))
    return logpi[xi] if (abs(x-xi) < 1e-9 and xi in logpi) else -np.inf

def run(prefix, x0, maxrej=2):
    ctx = Ctx(prefix)
    c = GibbsChain(posterior=post, start=np.array([float(x0)]), widths=np.array([1.0]), display_progress=False)
    c.rng = SRng(ctx, None); c.params[0].rng = SRng(ctx, [-2,-1,1,2])
    evals=[]
    orig = c.posterior
    rej=[0]
    def rec(t):
        evals.append(float(t[0]))
        if len(evals) > maxrej+1: raise Cut()
        return orig(t)
    c.posterior = rec
    try:
        c.take_step(); out = c.params[0].samples[-1]
    except Cut: out = None
    return ctx, evals, out

def explore(x0):
    stack=[[]]; res=[]
    n=0
    while stack:
        p = stack.pop()
        ctx, evals, out = run(p, x0); n+=1
        res.append((ctx.weight, [t[1] for t in ctx.trace], evals, out, list(ctx.obs)))
        for i in range(len(p), len(ctx.trace)):
            for alt in range(1, ctx.trace[i][2]):
                stack.append([t[1] for t in ctx.trace[:i]]+[alt])
    return res, n
import warnings; warnings.simplefilter("ignore")
t0=time.time(); tot=0
P = np.zeros((6,6))
for x0 in support:
    res, n = explore(x0); tot+=n
    # first-attempt kernel: executions with exactly one eval accepted
    for w, tr, ev, out, obs in res:
        if out is not None and len(ev)==1: P[x0, int(out)] += w
    P[x0,x0] = 1-P[x0].sum()
pi = np.exp([logpi[x] for x in support]); pi/=pi.sum()
F = pi[:,None]*P
print("executions", tot, "time", time.time()-t0)
print("detailed balance max err", abs(F-F.T).max())
J = P.copy(); np.fill_diagonal(J,0); J/=J.sum(axis=1, keepdims=True)
w,v = np.linalg.eig(J.T); st = np.real(v[:,np.argmax(np.real(w))]); st/=st.sum()
print("pi      ", pi.round(4)); print("jump st ", st.round(4))
alpha = 1-np.diag(P); pa = pi*alpha; print("pi*alpha", (pa/pa.sum()).round(4))
