import numpy as np, warnings; warnings.simplefilter("ignore")
from inference.mcmc import PcaChain
exec(open(__import__('os').path.join(__import__('os').path.dirname(__file__),'spike_gibbs_lattice_kernel.py')).read().split("support = range")[0])   # Ctx, U, SRng, Cut
N=4
pts=[(i,j) for i in range(N) for j in range(N)]
logpi={p: -0.4*(p[0]-1)**2-0.25*(p[1]-2)**2+0.2*p[0]*p[1] for p in pts}
def post(t):
    k=(int(round(t[0])),int(round(t[1])))
    assert abs(t[0]-k[0])<1e-9 and abs(t[1]-k[1])<1e-9, t
    return logpi.get(k,-np.inf)
class SRng2(SRng):
    def normal(self, loc=0.0, scale=1.0, size=None):
        k=self.ctx.choose("normal",[1/len(self.xi)]*len(self.xi)); return loc+scale*self.xi[k]
def kernel(directions, bounded, which):
    P=np.zeros((len(pts),len(pts)))
    for a,x0 in enumerate(pts):
        stack=[[]]
        while stack:
            p=stack.pop(); ctx=Ctx(p)
            c=PcaChain(posterior=post,start=np.array(x0,float),widths=np.array([1.,1.]),display_progress=False,
                       bounds=(np.full(2,-0.5),np.full(2,N-0.5)) if bounded else None)
            c.directions=[np.array(d,float) for d in directions]
            if which==1: c.directions=c.directions[::-1]
            c.rng=SRng2(ctx,[-2,-1,1,2]); ev=[]
            orig=c.posterior
            def rec(t):
                ev.append(tuple(t))
                if len(ev)>1: raise Cut()
                return orig(t)
            c.posterior=rec
            out=None
            try: c.take_step()
            except Cut:
                # first coordinate update accepted iff second eval happened
                if not ctx.obs: acc=True
                else:
                    thr=ctx.obs[0][1]
                    if thr<=0: acc=False
                    elif thr>=1: acc=True
                    else: acc=[t for t in ctx.trace if t[0]=='accept'][0][1]==0
                out=ev[0] if acc else None
            if out is not None:
                b=pts.index((int(round(out[0])),int(round(out[1])))); P[a,b]+=ctx.weight
            for i in range(len(p),len(ctx.trace)):
                for alt in range(1,ctx.trace[i][2]): stack.append([t[1] for t in ctx.trace[:i]]+[alt])
        P[a,a]+=1-P[a].sum()
    return P
pi=np.exp([logpi[p] for p in pts]); pi/=pi.sum()
for dirs,bounded in [(((1,0),(0,1)),True),(((1,1),(1,-1)),True)]:
    P=kernel(dirs,bounded,0); F=pi[:,None]*P
    print("dirs",dirs,"bounded",bounded,"DB max err",abs(F-F.T).max(),"stationarity err",abs(pi@P-pi).max())
