import numpy as np, time, threading, pickle, random, io, sys, contextlib, hashlib
from collections import deque
import inference.mcmc.parallel as PAR
from inference.mcmc import GibbsChain

class Abort(BaseException): pass
class Deadlock(Exception): pass

class Sched:
    def __init__(self):
        self.ctl = threading.Semaphore(0); self.T = {}; self.order = []; self.abort=False; self.cur=None
    def spawn(self, name, fn):
        t = dict(name=name, go=threading.Semaphore(0), finished=False, enabled=(lambda: True), exc=None, n=0, h=hashlib.sha1())
        self.T[name]=t; self.order.append(name)
        def body():
            t["go"].acquire()
            try:
                if self.abort: raise Abort()
                fn()
            except Abort: pass
            except BaseException as e: t["exc"]=e
            t["finished"]=True; self.ctl.release()
        th=threading.Thread(target=body, daemon=True); t["th"]=th; th.start()
    def point(self, enabled=None):
        t=self.T[self.cur]; t["enabled"]=enabled or (lambda: True); t["started"]=True
        self.ctl.release(); t["go"].acquire()
        if self.abort: raise Abort()
        t["enabled"]=lambda: True
    def note(self, kind, payload=b""):
        t=self.T[self.cur]; t["n"]+=1; t["h"].update(kind.encode()+payload)
    def enabled(self):
        return [n for n in self.order if not self.T[n]["finished"] and self.T[n]["enabled"]()]
    def key(self):
        return tuple((n,self.T[n]["n"],self.T[n]["h"].hexdigest(),self.T[n]["finished"],self.T[n].get("started",False)) for n in sorted(self.T))
    def run(self, prefix, first):
        """returns ('frontier', enabled) when prefix exhausted, or ('done',), or ('deadlock', names)"""
        self.cur=first; self.T[first]["go"].release(); self.ctl.acquire()
        i=0; res=None
        while True:
            en=self.enabled()
            if not en:
                res=("done",) if all(t["finished"] for t in self.T.values()) else ("deadlock",[n for n in self.order if not self.T[n]["finished"]]); break
            if i>=len(prefix): res=("frontier",en); break
            nxt=en[prefix[i]]; i+=1
            self.cur=nxt; self.T[nxt]["go"].release(); self.ctl.acquire()
        # cleanup
        self.abort=True
        for t in self.T.values():
            if not t["finished"]: t["go"].release()
        for t in self.T.values(): t["th"].join()
        return res
S=None
class FConn:
    def __init__(self): self.inbox=[]; self.peer=None
    def send(self,obj): S.point(); b=pickle.dumps(obj); S.note("send",b); self.peer.inbox.append(b)
    def recv(self): S.point(lambda: bool(self.inbox)); b=self.inbox.pop(0); S.note("recv",b); return pickle.loads(b)
    def poll(self,timeout=0.0): S.point(lambda: bool(self.inbox) or FEvent.flag); r=bool(self.inbox); S.note("poll",bytes([r])); return r
class FEvent:
    flag=False
    def is_set(self): return FEvent.flag
    def set(self): S.point(); S.note("set"); FEvent.flag=True
def FPipe():
    a,b=FConn(),FConn(); a.peer=b; b.peer=a; return a,b
class FProcess:
    n=0
    def __init__(self,target,args):
        FProcess.n+=1; self.name=f"w{FProcess.n}"; self.target=target
        chain,conn,evt=args; self.args=(pickle.loads(pickle.dumps(chain)),conn,evt)
    def start(self): S.spawn(self.name, lambda: self.target(*self.args))
    def join(self): S.point(lambda: S.T[self.name]["finished"]); S.note("join")
PAR.Process=FProcess; PAR.Pipe=FPipe; PAR.Event=FEvent
def post(t): return -0.5*float((np.asarray(t)**2).sum())
def mk(seed,n):
    chains=[]
    for i in range(n):
        c=GibbsChain(posterior=post,start=np.array([0.5,0.1]),widths=np.array([1.,1.]),temperature=2.0**i,display_progress=True)
        c.rng=np.random.default_rng(seed+i)
        for k,p in enumerate(c.params): p.rng=np.random.default_rng(1000*seed+10*i+k)
        chains.append(c)
    return chains
def one(prefix,n):
    global S
    S=Sched(); FEvent.flag=False; FProcess.n=0; out={}
    def parent():
        random.seed(1)
        pt=PAR.ParallelTempering(mk(1,n)); pt.rng=np.random.default_rng(1)
        pt.take_steps(2); pt.swap(); pt.take_steps(1)
        ch=pt.return_chains(); pt.shutdown()
        out["chains"]=tuple(c.get_sample(burn=0).tobytes()+np.array(c.probs).tobytes() for c in ch)
    S.spawn("parent",parent)
    with contextlib.redirect_stdout(io.StringIO()):
        res=S.run(prefix,"parent")
    excs={n:t["exc"] for n,t in S.T.items() if t["exc"] is not None}
    return res, S.key()+(FEvent.flag,), out.get("chains"), excs
for n in (2,3):
    t0=time.time(); seen={}; q=deque([[]]); trans=0; finals=set(); runs=0; maxd=0
    while q:
        p=q.popleft(); res,key,chains,excs=one(p,n); runs+=1
        if excs: print("EXC",excs); break
        if key in seen: continue
        seen[key]=p; maxd=max(maxd,len(p))
        if res[0]=="done": finals.add(chains); continue
        if res[0]=="deadlock": print("DEADLOCK",res,p); break
        for k in range(len(res[1])): q.append(p+[k]); trans+=1
    print("N",n,"states",len(seen),"transitions",trans,"runs",runs,"finals",len(finals),"maxdepth",maxd,"time",round(time.time()-t0,1),"threads",threading.active_count())
